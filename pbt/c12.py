"""C12 -- tabulated omega (FromArray / FromFile) is used verbatim on a matching grid and rejected otherwise."""
import os
import shutil
import tempfile

import numpy as np
from hypothesis import strategies as st

from . import build, specs
from .core import Sub, Outcome, target

PID = 'C12'
SHARDS = {'quick': 4, 'thorough': 16}
RULE = ('Generated (Domain via dr|dk, length 1-64 [thorough 1-512]; value table incl. denormals, -0.0, 1e+-300; input kind list / '
        'ndarray / one-column file / two-column file written with repr precision; k column exact, or shifted / rescaled / single-point '
        'perturbed by <=0.1x or >=10x numpy.allclose tolerance (atol 1e-8 + rtol 1e-5 |k|), or every point perturbed independently (<=0.5x its own tolerance, '
        'with 0-2 points at 2..10x theirs), or truncated / extended by 1..3 rows; value '
        'length equal / shorter / longer). Oracle: matching -> calculate(k) returns the table bit-for-bit, in order, not sharing memory '
        'with the caller array and unaffected by later mutation of it; PRISM.omega = table * site density bit-for-bit. Mismatching -> '
        'calculate raises (array input, two-column file) or createPRISM / first cost raises (one-column file); never an omega from '
        'mismatched data. (export) PairTable.exportToMatrixArray exports tables of arrays verbatim iff all entries have the same length (one '
        'entry of length 1, 2, n-1, n+1, n/2 or 2n must be refused). Non-trivial = domain length >= 2 and values not constant; distinct = spec hash.')
ASSUMPTIONS = ['values and k are finite floats; files are what numpy.loadtxt (the documented reader) accepts: whitespace/tab separated numbers in repr / %.18e / upper-case-E notation, optional # header, # comment lines, trailing comments, padding and blank lines',
               'perturbations of the k column are never borderline: <= 0.5x or >= 2x the allclose tolerance of the point (<= 0.1x / >= 10x for the uniform variants)',
               'a grid whose point count differs from length (a Domain defect judged by C07) is counted and skipped']
ATOL, RTOL = 1e-8, 1e-5


def spec_strategy(max_len):
    val = st.one_of(specs.fl(-5, 50), specs.fl(0, 2), specs.signed(-300, 300), st.sampled_from([0.0, -0.0, 5e-324, 1e300, -1e300, 1.0]))
    kinds = ['exact', 'exact', 'shifted', 'rescaled', 'single', 'shifted', 'rescaled', 'single', 'truncated', 'extended', 'multi', 'multi', 'multi']
    kvar = st.builds(lambda how, mag, big, idx, sgn, m: {'kind': how, 'mag': mag, 'big': big, 'idx': idx, 'sign': sgn, 'm': m},
                     st.sampled_from(kinds), specs.fl(0.0, 1.0), st.sampled_from([True, False]), st.integers(0, 10 ** 6),
                     st.sampled_from([-1, 1]), st.integers(1, 3))
    return st.fixed_dictionaries({
        'domain': st.builds(lambda n, s, w: {'length': n, w: s}, st.one_of(st.integers(1, max_len), st.integers(1, 8)), specs.spacing(),
                            st.sampled_from(['dr', 'dr', 'dk'])),
        'values': st.lists(val, min_size=1, max_size=12),
        'source': st.sampled_from(['list', 'ndarray', 'file1', 'file2', 'file2', 'ndarray']),
        'with_k': st.sampled_from([True, True, True, False]),
        'kvar': kvar,
        'vlen': st.sampled_from([0, 0, 0, -1, 1, -2, 3]),
        'layout': st.sampled_from(LAYOUTS),
        'arrform': st.sampled_from(['plain', 'plain', 'column-view', 'readonly-view']),
        'rank': st.sampled_from([1, 2]),
        'rho': specs.logfloat(-3, 0, 4)})


def _values(spec, n):
    v = np.asarray(spec['values'], dtype=float)
    base = np.tile(v, -(-max(n, 1) // len(v)))[:n].copy()
    # make the table non-constant in a deterministic way (keeps the special values in place)
    return base * (1.0 + 0.25 * (np.arange(n) % 3)) if n else base


def _perturbed_k(spec, k):
    """returns (k column, matches?)"""
    kv = spec['kvar']
    kind = kv['kind']
    tol = ATOL + RTOL * np.abs(k)
    if kind == 'exact':
        return k.copy(), True
    if kind in ('truncated', 'extended'):
        m = kv['m']
        if kind == 'truncated':
            m = min(m, len(k) - 1)
            if m <= 0:
                return k.copy(), True
            return k[:-m].copy(), False
        dk = k[0]
        return np.concatenate([k, k[-1] + dk * np.arange(1, m + 1)]), False
    factor = (10.0 + 90.0 * kv['mag']) if kv['big'] else 0.1 * kv['mag']
    delta = kv['sign'] * factor * tol
    out = k.copy()
    if kind == 'multi':
        # every point perturbed independently: "small" points by up to 0.5x their own tolerance, 0-2 "big" points by 2..10x
        # theirs (big ones preferably at low k, where the tolerance is smallest); matches iff there is no big point
        g = np.random.Generator(np.random.PCG64(kv['idx']))
        f = g.uniform(0.0, 0.5, len(k)) * g.choice([-1.0, 1.0], len(k))
        nbig = int(g.integers(0, 3)) if kv['big'] else 0
        where = []
        for _ in range(nbig):
            i = int(g.integers(0, max(1, len(k) // 4))) if g.random() < 0.7 else int(g.integers(0, len(k)))
            f[i] = g.uniform(2.0, 10.0) * g.choice([-1.0, 1.0])
            where.append(i)
        return k + f * tol, len(where) == 0
    if kind == 'shifted':
        # constant absolute shift sized by the tolerance at the smallest k (the tolerance grows with k): a big shift exceeds
        # the tolerance there, a small one stays below it everywhere
        return k + kv['sign'] * factor * tol[0], not kv['big']
    if kind == 'rescaled':
        out = k + delta
    else:
        i = kv['idx'] % len(k)
        out[i] = k[i] + delta[i]
    if kv['big']:
        return out, False
    return out, True


LAYOUTS = ['repr', 'repr', 'savetxt', 'tabs', 'header', 'comments', 'padded', 'upperE']


def _write(path, cols, layout='repr'):
    """the same numbers in different layouts, every one of them a plain numpy.loadtxt file (the documented reader): numbers are
    written with 17 significant digits or repr, so the text round-trips to the same doubles"""
    fmt = {'savetxt': lambda x: '%.18e' % x, 'upperE': lambda x: ('%.17E' % x)}.get(layout, lambda x: repr(float(x)))
    sep = {'tabs': '\t', 'padded': '    '}.get(layout, ' ')
    with open(path, 'w') as fh:
        if layout in ('header', 'comments'):
            fh.write('# k omega(k) -- written by the test harness\n')
        for i, row in enumerate(zip(*cols)):
            line = sep.join(fmt(float(x)) for x in row)
            if layout == 'padded':
                line = '  ' + line + '   '
            if layout == 'comments' and i % 3 == 1:
                line += '   # row %d' % i
            fh.write(line + '\n')
            if layout == 'comments' and i % 4 == 2:
                fh.write('# a comment line between the data rows\n')
        if layout in ('padded', 'header'):
            fh.write('\n\n')


def _bits(a):
    return np.ascontiguousarray(np.asarray(a, dtype=float)).tobytes()


class Tabulated(Sub):
    name = 'tabulated'
    doc = 'FromArray / FromFile on matching and mismatching grids, calculate level and PRISM level'
    budget = {'quick': 800, 'thorough': 320000}

    def strategy(self, tier):
        return spec_strategy(64 if tier == 'quick' else 512)

    def check(self, spec):
        P = target()
        out = Outcome()
        sig = PID + '/'
        dom = build.domain(spec['domain'])
        if not build.grid_ok(dom):
            out.skipped = 'domain-grid-miscount'
            return out
        k = dom.k
        n = len(k)
        source = spec['source']
        is_file = source.startswith('file')
        has_k = (source == 'file2') or (not is_file and spec['with_k'])
        if has_k:
            kcol, k_ok = _perturbed_k(spec, k)
            nval = len(kcol) if source == 'file2' else n + spec['vlen']
        else:
            kcol, k_ok = None, True
            nval = n + spec['vlen']
        if nval < 1:
            nval = 1
        vals = _values(spec, nval)
        len_ok = (nval == n)
        match = k_ok and len_ok and (kcol is None or len(kcol) == n)
        out.label('source=' + source, 'k=' + (spec['kvar']['kind'] + ('-big' if spec['kvar'].get('big') and spec['kvar']['kind'] in ('shifted', 'rescaled', 'single', 'multi') else '') if has_k else 'none'),
                  'match' if match else 'mismatch', 'vlen%+d' % (nval - n))
        out.nontrivial = n >= 2 and len(set(vals.tolist())) > 1
        tmp = None
        try:
            caller = None
            if is_file:
                tmp = tempfile.mkdtemp(prefix='pbt_c12_')
                path = os.path.join(tmp, 'omega.dat')
                _write(path, [kcol, vals] if source == 'file2' else [vals], spec.get('layout', 'repr'))
                out.label('layout=' + spec.get('layout', 'repr'))
                make = lambda: P.omega.FromFile(path)
            elif source == 'list':
                make = lambda: P.omega.FromArray(vals.tolist(), None if kcol is None else kcol.tolist())
            else:
                caller = vals.copy()
                caller_k = None if kcol is None else kcol.copy()
                form = spec.get('arrform', 'plain')
                parent = None
                if form != 'plain':
                    # the caller hands over columns of a larger (n,2) array -- optionally flagged read-only, which says nothing
                    # about the parent: it stays writeable and is changed afterwards
                    parent = np.empty((len(vals), 2))
                    parent[:, 1] = vals
                    parent[:, 0] = kcol if (kcol is not None and len(kcol) == len(vals)) else 0.0
                    caller = parent[:, 1]
                    if kcol is not None and len(kcol) == len(vals):
                        caller_k = parent[:, 0]
                    if form == 'readonly-view':
                        caller.setflags(write=False)
                        if caller_k is not None and caller_k.base is not None:
                            caller_k.setflags(write=False)
                    out.label('array=' + form)
                make = lambda: P.omega.FromArray(vals.copy(), None if kcol is None else kcol.copy())
            om = make() if caller is None else P.omega.FromArray(caller, caller_k)
            if caller is not None:
                # later changes to the caller's arrays must not leak into the stored values
                if parent is not None:
                    parent[:, 1] += 1.0
                    parent[:, 1] *= -3.0
                    if caller_k is not None and caller_k.base is not None:
                        parent[:, 0] *= 2.0
                    elif caller_k is not None:
                        caller_k *= 2.0
                else:
                    caller += 1.0
                    caller *= -3.0
                    if caller_k is not None:
                        caller_k *= 2.0
            # ---- calculate level
            must_raise_at_calculate = (not match) and (source != 'file1')
            try:
                got = om.calculate(k)
                raised = None
            except (AssertionError, ValueError) as exc:
                raised = exc
            if raised is not None:
                if match:
                    out.fail(sig + source + '/matching-table-rejected', 'calculate(k) raised %s on a matching table (n=%d)' % (type(raised).__name__, n),
                             kvar=spec['kvar'])
                    return out
                # correctly rejected here; the same table must also be rejected when it reaches a PRISM object through a System
                # (the tables of a System hold copies of the object), see "PRISM level" below
                out.label('mismatch-also-tried-through-System')
            elif must_raise_at_calculate:
                out.fail(sig + source + '/mismatched-table-accepted',
                         'calculate(k) returned instead of raising: %d values%s for a %d-point grid, k column %s' % (
                             nval, '' if kcol is None else ' / %d k rows' % len(kcol), n, spec['kvar'] if has_k else 'absent'))
                return out
            if match and raised is None:
                got = np.asarray(got)
                if got.shape != (n,):
                    out.fail(sig + source + '/result-shape', 'calculate(k) returned shape %s for a %d-point grid' % (got.shape, n))
                    return out
                if _bits(got) != _bits(vals):
                    i = int(np.flatnonzero(np.asarray(got, dtype=float).view(np.int64) != vals.view(np.int64))[0])
                    out.fail(sig + source + '/values-not-verbatim', 'calculate(k)[%d] = %r, supplied %r' % (i, float(got[i]), float(vals[i])))
                    return out
                if caller is not None and np.shares_memory(got, caller):
                    out.fail(sig + source + '/aliases-caller-array', 'stored table shares memory with the caller array')
                # second evaluation: same answer on the same grid, rejection on a different one
                again = np.asarray(om.calculate(k))
                if _bits(again) != _bits(vals):
                    out.fail(sig + source + '/second-evaluation-differs', 'second calculate(k) returned different values')
                if has_k and n >= 1:
                    try:
                        om.calculate(k * 1.5)
                        out.fail(sig + source + '/mismatched-table-accepted', 'calculate(1.5*k) accepted a table whose k column matches k')
                    except (AssertionError, ValueError):
                        pass
            # ---- PRISM level
            types = ['A', 'B'][:spec['rank']]
            s = P.System(types)
            s.domain = dom
            s.density[types] = spec['rho']
            s.diameter[types] = 1.0
            s.potential[types, types] = P.potential.HardSphere()
            s.closure[types, types] = P.closure.PercusYevick()
            s.omega[types, types] = P.omega.NoIntra()
            for t in types:
                s.omega[t, t] = P.omega.SingleSite()
            s.omega['A', 'A'] = make()
            stage = None
            try:
                import warnings
                with warnings.catch_warnings():
                    warnings.simplefilter('ignore')
                    pr = s.createPRISM()
                    stage = 'created'
                    if not match:
                        with np.errstate(all='ignore'):
                            pr.cost(np.zeros(len(types) ** 2 * n))
                        stage = 'evaluated'
            except Exception as exc:   # noqa -- any rejection is acceptable for mismatched data
                if match:
                    out.fail(sig + source + '/matching-table-rejected', 'createPRISM raised %s: %s on a matching table' % (type(exc).__name__, exc))
                return out
            if not match:
                out.fail(sig + source + '/mismatched-table-used-in-PRISM',
                         'createPRISM and cost() ran with a %s table of %d values%s on a %d-point grid' % (
                             source, nval, '' if kcol is None else ' (%d k rows, kvar %s)' % (len(kcol), spec['kvar']), n))
                return out
            want = vals * np.float64(spec['rho'])
            gotp = np.asarray(pr.omega['A', 'A'], dtype=float)
            if gotp.shape != (n,) or _bits(gotp) != _bits(want):
                out.fail(sig + source + '/PRISM-omega-differs-from-table', 'PRISM.omega[A,A] is not table * site density')
            # a second PRISM built from the same System (a sweep) sees the same table, and the System's own table object still
            # returns the supplied values
            with warnings.catch_warnings():
                warnings.simplefilter('ignore')
                pr2 = s.createPRISM()
            got2 = np.asarray(pr2.omega['A', 'A'], dtype=float)
            if got2.shape != (n,) or _bits(got2) != _bits(want):
                out.fail(sig + source + '/second-PRISM-omega-differs-from-table', 'a second createPRISM() on the same System gives an omega that is not table * site density')
            still = np.asarray(s.omega['A', 'A'].calculate(k), dtype=float)
            if still.shape != (n,) or _bits(still) != _bits(vals):
                out.fail(sig + source + '/table-changed-by-createPRISM', 'after createPRISM() the System\'s own table no longer returns the supplied values')
        finally:
            if tmp is not None:
                shutil.rmtree(tmp, ignore_errors=True)
        return out


class Export(Sub):
    name = 'export'
    doc = 'PairTable.exportToMatrixArray: tables of arrays are exported verbatim when all lengths agree and refused (ValueError) otherwise, incl. length-1 entries'
    budget = {'quick': 300, 'thorough': 24000}

    def strategy(self, tier):
        return st.fixed_dictionaries({'rank': st.integers(1, 4), 'n': st.integers(2, 40), 'odd': st.one_of(st.none(), st.integers(0, 9)),
                                      'odd_len': st.sampled_from([1, 1, 2, -1, +1, 'half', 'double']), 'seed': st.integers(0, 2 ** 31 - 1)})

    def check(self, spec):
        P = target()
        out = Outcome()
        sig = PID + '/export/'
        names = ['solvent', 'polymer', 'filler', 'x'][:spec['rank']]
        n = spec['n']
        g = np.random.Generator(np.random.PCG64(spec['seed']))
        pt = P.PairTable(names, 'omega')
        pairs = [(a, b) for i, a in enumerate(names) for b in names[i:]]
        odd = None if spec['odd'] is None else spec['odd'] % len(pairs)
        ol = spec['odd_len']
        bad_len = {'half': max(1, n // 2), 'double': 2 * n}.get(ol, n + ol if ol in (-1, 1) and isinstance(ol, int) and ol != 1 else ol)
        if ol == 1:
            bad_len = 1
        elif ol == 2:
            bad_len = 2
        elif ol == -1:
            bad_len = n - 1
        vals = {}
        for i, (a, b) in enumerate(pairs):
            m = bad_len if i == odd else n
            vals[a, b] = g.standard_normal(m)
            pt[a, b] = vals[a, b]
        mismatch = odd is not None and bad_len != n and len(pairs) > 1
        out.nontrivial = len(pairs) > 1
        out.label('mismatch-len=%s' % (ol,) if mismatch else 'all-equal', 'rank=%d' % spec['rank'])
        try:
            ma = pt.exportToMatrixArray(space=P.Space.Fourier)
            raised = None
        except ValueError as exc:
            raised = exc
        if mismatch and raised is None:
            out.fail(sig + 'unequal-lengths-exported', 'exportToMatrixArray accepted a table in which one pair has %d values and the others %d' % (bad_len, n))
        elif not mismatch:
            if raised is not None:
                out.fail(sig + 'equal-lengths-refused', 'exportToMatrixArray raised ValueError although every entry has %d values' % (n if odd is None or len(pairs) > 1 else bad_len))
            else:
                L = n if (odd is None or len(pairs) > 1) else bad_len
                for (a, b), v in vals.items():
                    i, j = names.index(a), names.index(b)
                    if ma.data.shape[0] != L or ma.data[:, i, j].tobytes() != np.asarray(v, dtype=float).tobytes() or ma.data[:, j, i].tobytes() != np.asarray(v, dtype=float).tobytes():
                        out.fail(sig + 'exported-values-differ', 'exported pair function (%s,%s) is not the table entry' % (a, b))
                        break
        return out


SUBS = [Tabulated(), Export()]
