"""Hypothesis strategies producing JSON-able specs shared by several checks."""
from hypothesis import strategies as st


def sig(x, n=6):
    return float('%.*g' % (n, x))


def logfloat(lo_exp, hi_exp, digits=6):
    """log-uniform positive float, rounded to a few significant digits so that specs stay readable"""
    return st.floats(lo_exp, hi_exp, allow_nan=False).map(lambda e: sig(10.0 ** e, digits))


def fl(lo, hi, digits=6):
    """uniform float in [lo,hi]; magnitudes below 1e-9 of the range are flushed to 0 (no denormal noise in specs)"""
    floor = 1e-9 * max(abs(lo), abs(hi))
    return st.floats(lo, hi, allow_nan=False, allow_infinity=False).map(
        lambda v: sig(v, digits) if abs(v) >= floor else (0.0 if lo <= 0.0 <= hi else sig(min(max(floor, lo), hi), digits)))


# spacings: decimal literals (where np.arange-style grids mis-count), binary fractions, and arbitrary values
DECIMAL_SPACINGS = [0.1, 0.05, 0.075, 0.01, 0.2, 0.025, 0.3, 0.02, 0.15, 0.04, 0.06, 0.07,
                    0.125, 0.25, 0.5, 1.0 / 3.0, 0.35, 0.003, 0.11, 0.09]


def spacing():
    dec = st.builds(lambda m, k: m * 10.0 ** (-k), st.integers(1, 99), st.integers(1, 3))
    return st.one_of(st.sampled_from(DECIMAL_SPACINGS), dec, logfloat(-2.5, 0.0, 4), logfloat(-2.5, 0.0, 12))


def length(max_len=4096):
    small = st.integers(1, min(300, max_len))
    pow2 = st.sampled_from([n for n in (2, 4, 8, 16, 32, 64, 128, 256, 512, 1024, 2048, 4096) if n <= max_len])
    dec = st.sampled_from([n for n in (10, 50, 100, 200, 500, 1000, 2000, 5000) if n <= max_len])
    return st.one_of(small, pow2, dec, st.integers(1, max_len))


def domain_spec(max_len=4096):
    return st.builds(lambda n, s, which: {'length': n, which: s}, length(max_len), spacing(), st.sampled_from(['dr', 'dr', 'dk']))


def signed(lo_exp, hi_exp, digits=8):
    """0 or a signed float with magnitude log-uniform in 10^[lo,hi] (keeps products away from underflow)"""
    return st.one_of(st.just(0.0), st.builds(lambda s, m: s * m, st.sampled_from([-1.0, 1.0]), logfloat(lo_exp, hi_exp, digits)),
                     st.floats(-10, 10, allow_nan=False).map(lambda v: sig(v, digits) if abs(v) > 1e-3 else 0.0))


def array_desc(max_list=16, scale_exp=(-3, 3)):
    val = signed(-12, 3)
    lst = st.lists(val, min_size=1, max_size=max_list).map(lambda v: {'kind': 'list', 'values': v})
    rng = st.builds(lambda s, sc: {'kind': 'rng', 'seed': s, 'scale': sc}, st.integers(0, 2 ** 31 - 1), logfloat(*scale_exp))
    mode = st.tuples(fl(-10, 10), fl(0, 60), fl(0, 6.3), fl(0, 8)).map(list)
    modes = st.lists(mode, min_size=1, max_size=4).map(lambda m: {'kind': 'modes', 'modes': m})
    return st.one_of(lst, rng, modes)
