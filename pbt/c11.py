"""C11 -- analytic omega(k) models equal their defining pair sums and obey the sum rules."""
import math
import warnings

import numpy as np
from hypothesis import strategies as st

from . import build, specs
from .core import Sub, Outcome, target

PID = 'C11'
SHARDS = {'quick': 4, 'thorough': 16}
RULE = ('Generated chain models: Gaussian / FreelyJointedChain (and alias FJC) / GaussianRing with N in 2..50 or log-uniform to 1e4, '
        'lengths 0.2..5; DiscreteKoyama (sigma, l > sigma/2, lp in [lp_min, 20 lp_min], N<=40, plus invalid triples); NFJC (N<=16, '
        'l 0.5..2); SingleSite / NoIntra / InterMolecular. k from (i) log-uniform 1e-4..1e3, (ii) the full k grid of a generated '
        'Domain(dr|dk,length), (iii) sub-samples. Oracles: finiteness; own pair sum 1+(2/N) sum (N-t) w_t(k) (w_t from the documented '
        'per-separation factor; Koyama kernel from the public koyama_kernel_fourier, sites counted by an own loop); omega <= N; '
        'small-k expansion with the textbook <r^2>_t and a two-sided remainder bound; omega -> 1 for k*l >= 1e3; bitwise independence '
        'of the other k in the array; scaling omega(k; 2*lengths) = omega(2k; lengths) bitwise; ValueError exactly for invalid Koyama '
        'triples; constant models. Non-trivial = N >= 3 and the k range spans k*Rg < 0.3 and k*l > 10 (chains); distinct = spec hash.')
ASSUMPTIONS = ['Koyama and NFJC per-separation kernels are defined only in papers not available offline: the kernel expression is taken '
               'from the implementation; pair-sum structure over N sites, limits, <r^2> curvature, rigid-bond identity w_1=sin(kl)/(kl), '
               'scaling, independence and rejection rules are decided independently',
               'closed-form tolerance = 64 eps (N omega + 4/(1-E)^2 + N/(1-E)): the rounding inherent in the documented closed form',
               'k > 0 and k*sigma > 1e-6 (no generated Domain reaches the 0/0 region of the closed form at k*sigma < 2.6e-8)']

EPS = np.finfo(float).eps


def k_strategy(max_dom):
    logk = st.lists(specs.logfloat(-4, 3, 8), min_size=1, max_size=48).map(lambda v: {'kind': 'log', 'values': sorted(set(v))})
    dom = specs.domain_spec(max_dom).map(lambda d: {'kind': 'domain', 'domain': d})
    sub = st.builds(lambda d, seed, m: {'kind': 'subsample', 'domain': d, 'seed': seed, 'm': m}, specs.domain_spec(max_dom),
                    st.integers(0, 2 ** 31 - 1), st.integers(1, 64))
    span = st.just({'kind': 'span'})
    return st.one_of(span, dom, sub, span, logk, span)


def build_k(kspec, cap=None):
    """returns (k array, skipped reason)"""
    if kspec['kind'] == 'log':
        return np.asarray(kspec['values'], dtype=float), None
    if kspec['kind'] == 'span':
        return np.concatenate([10.0 ** np.linspace(-4, 3, 57), [1.0, 2.5, 0.1, 0.5]]), None
    dom = build.domain(kspec['domain'])
    if not build.grid_ok(dom):
        return None, 'domain-grid-miscount'
    k = dom.k
    if kspec['kind'] == 'subsample':
        g = np.random.Generator(np.random.PCG64(kspec['seed']))
        k = k[np.sort(g.permutation(len(k))[:kspec['m']])]
    if cap is not None and len(k) > cap:
        k = k[np.unique(np.linspace(0, len(k) - 1, cap).astype(int))]
    return np.array(k, dtype=float), None


def pair_sum_powers(N, E):
    """1 + (2/N) sum_{t=1}^{N-1} (N-t) E^t by explicit accumulation (never the closed form)"""
    tot = np.zeros_like(E)
    p = np.ones_like(E)
    for t in range(1, N):
        p = p * E
        tot += (N - t) * p
    return 1.0 + 2.0 * tot / N


def closed_form_tol(N, E, omega):
    with np.errstate(all='ignore'):
        d = np.abs(1.0 - E)
        return 64 * EPS * (N * np.abs(omega) + 4.0 / d ** 2 + N / d) + 1e-300


def curvature_check(out, sig, model, N, k, om, r2_of_t, tol):
    """omega = N - (2/N) sum (N-t) x_t + R, 0 <= R <= (2/N) sum (N-t) x_t^2 (x_t = k^2 <r^2>_t/6), judged where max x_t <= 0.3"""
    if N < 2:
        return False        # a single site: omega = 1, there is no pair to expand
    t = np.arange(1, N)
    r2 = r2_of_t(t)
    w = (N - t) * 2.0 / N
    x = np.outer(k * k, r2) / 6.0
    sel = np.max(x, axis=1) <= 0.3
    if not np.any(sel):
        return False
    first = N - x[sel] @ w
    rem = (x[sel] ** 2) @ w
    dev = om[sel] - first
    bad = (dev < -rem * 1.0 - tol[sel]) | (dev > rem + tol[sel])
    if np.any(bad):
        i = int(np.flatnonzero(bad)[0])
        out.fail(sig + model + '/small-k-expansion', '%s N=%d: omega(k=%r)=%r but N-(k^2/6)(2/N)sum(N-t)<r^2>_t = %r (+-%r)' % (
            model, N, float(k[sel][i]), float(om[sel][i]), float(first[i]), float(rem[i] + tol[sel][i])))
    return True


# --------------------------------------------------------------------------- Gaussian / FJC / ring

def chain_spec(max_dom):
    n = st.one_of(st.integers(2, 50), st.integers(2, 50), st.sampled_from([2, 3]), st.floats(0.4, 4.0).map(lambda e: int(10 ** e)))
    # 'typed': how the numeric parameters are passed (python floats / ints, numpy scalars, float chain length) and whether k is
    # handed over as a strided view of a longer array -- none of this may change a value
    return st.fixed_dictionaries({'model': st.sampled_from(['Gaussian', 'FreelyJointedChain', 'FJC', 'GaussianRing']),
                                  'N': n, 'len': st.one_of(specs.logfloat(-0.7, 0.7, 5), specs.logfloat(-0.7, 0.7, 5), st.sampled_from([1.0, 2.0])),
                                  'typed': st.sampled_from(['plain', 'plain', 'int-len', 'np', 'float-N']), 'kview': st.booleans(),
                                  'k': k_strategy(max_dom), 'sub_seed': st.integers(0, 2 ** 31 - 1)})


def typed_params(model, N, ln, typed):
    """the same numbers in other python / numpy types"""
    if typed == 'int-len' and float(ln) == int(ln):
        ln = int(ln)
    elif typed == 'np':
        ln, N = np.float64(ln), np.int64(N)
    elif typed == 'float-N' and model != 'GaussianRing':     # the ring loops over range(length)
        N = float(N)
    return N, ln


def make_chain(model, N, ln):
    P = target()
    if model == 'Gaussian':
        return P.omega.Gaussian(sigma=ln, length=N)
    if model == 'GaussianRing':
        return P.omega.GaussianRing(sigma=ln, length=N)
    return getattr(P.omega, model)(length=N, l=ln)


class Chains(Sub):
    name = 'chain'
    doc = 'Gaussian / FJC / GaussianRing vs own pair sum, bounds, limits, independence, scaling'
    budget = {'quick': 2000, 'thorough': 240000}

    def strategy(self, tier):
        return chain_spec(4096 if tier == 'quick' else 32768)

    def check(self, spec):
        out = Outcome()
        sig = PID + '/'
        model, N, ln = spec['model'], spec['N'], spec['len']
        cap = 64 if N > 1000 else (512 if N > 100 else None)
        if model == 'GaussianRing' and N > 400:
            N = 2 + N % 399
        k, why = build_k(spec['k'], cap)
        if k is None:
            out.skipped = why
            return out
        k = k[k * ln > 1e-6]
        if len(k) == 0:
            out.skipped = 'no-k'
            return out
        om_obj = make_chain(model, N, ln)
        kb = k.tobytes()
        with np.errstate(all='ignore'):
            om = np.asarray(om_obj.calculate(k), dtype=float)
        fam = 'FJC' if model in ('FJC', 'FreelyJointedChain') else model
        # other parameter types / a strided view of k give the bitwise-same result and leave the underlying buffer alone
        tN, tl = typed_params(model, N, ln, spec.get('typed', 'plain'))
        if spec.get('kview'):
            buf = np.empty(2 * len(k))
            buf[0::2] = k
            buf[1::2] = -7.0
            kin = buf[0::2]
        else:
            buf, kin = None, k.copy()
        try:
            with np.errstate(all='ignore'):
                om_t = np.asarray(make_chain(model, tN, tl).calculate(kin), dtype=float)
        except Exception as exc:   # noqa
            out.fail(sig + fam + '/typed-input-raises', '%s(N=%r, len=%r) on %s k raised %s: %s' % (model, tN, tl, 'a strided view of' if buf is not None else 'contiguous',
                                                                                                   type(exc).__name__, exc))
            return out
        if om_t.shape != om.shape or not np.array_equal(om_t, om, equal_nan=True):
            out.fail(sig + fam + '/depends-on-argument-type', '%s: parameters passed as %s / k as %s give different values than plain floats on a contiguous array' % (
                model, spec.get('typed'), 'strided view' if buf is not None else 'contiguous array'))
        if buf is not None and (not np.array_equal(buf[0::2], k) or np.any(buf[1::2] != -7.0)):
            out.fail(sig + fam + '/modifies-k', 'calculate(k) wrote into the buffer behind a strided view of k')
        # write-protected k, and integer-typed k (wavenumbers that happen to be whole numbers)
        kro = k.copy()
        kro.setflags(write=False)
        ki = np.arange(1, 6, dtype=np.int64)
        try:
            with np.errstate(all='ignore'):
                om_r = np.asarray(make_chain(model, N, ln).calculate(kro), dtype=float)
                om_i = np.asarray(make_chain(model, N, ln).calculate(ki), dtype=float)
                om_f = np.asarray(make_chain(model, N, ln).calculate(ki.astype(float)), dtype=float)
            if om_r.shape != om.shape or not np.array_equal(om_r, om, equal_nan=True):
                out.fail(sig + fam + '/depends-on-argument-type', '%s: a write-protected k array gives different values' % model)
            if om_i.shape != om_f.shape or not np.array_equal(om_i, om_f, equal_nan=True):
                out.fail(sig + fam + '/depends-on-argument-type', '%s: integer-typed k gives different values than the same wavenumbers as floats' % model)
        except (ValueError, TypeError) as exc:
            out.fail(sig + fam + '/typed-input-raises', '%s(N=%r, len=%r) raised %s: %s for a write-protected / integer-typed k array' % (model, N, ln, type(exc).__name__, exc))
        out.label('typed=' + spec.get('typed', 'plain'), 'k-view' if buf is not None else 'k-contiguous')
        out.label('model=' + model, 'k=' + spec['k']['kind'], 'N>1000' if N > 1000 else ('N>50' if N > 50 else 'N<=50'))
        if k.tobytes() != kb:
            out.fail(sig + fam + '/modifies-k', 'calculate(k) modified its argument')
            return out
        if om.shape != k.shape:
            out.fail(sig + fam + '/result-shape', 'result shape %s for k of shape %s' % (om.shape, k.shape))
            return out
        if not np.all(np.isfinite(om)):
            i = int(np.flatnonzero(~np.isfinite(om))[0])
            out.fail(sig + fam + '/not-finite', '%s(N=%d, len=%r): omega(k=%r) = %r' % (model, N, ln, float(k[i]), float(om[i])))
            return out
        # defining pair sum
        with np.errstate(all='ignore'):
            if fam == 'Gaussian':
                E = np.exp(-k * k * ln * ln / 6.0)
                ref = pair_sum_powers(N, E)
                tol = closed_form_tol(N, E, ref)
                r2 = lambda t: t * ln * ln
            elif fam == 'FJC':
                E = np.sinc(k * ln / math.pi)
                ref = pair_sum_powers(N, E)
                tol = closed_form_tol(N, E, ref)
                r2 = lambda t: t * ln * ln
            else:
                ref = np.ones_like(k)
                for t in range(1, N):
                    ref += (N - t) * (2.0 / N) * np.exp(-k * k * ln * ln * t * (N - t) / (6.0 * N))
                tol = 64 * EPS * N * np.abs(ref) * (1.0 + k * k * ln * ln * N / 24.0)
                E = np.exp(-k * k * ln * ln * (N - 1) / (6.0 * N))
                r2 = lambda t: ln * ln * t * (N - t) / float(N)
        bad = np.abs(om - ref) > tol
        if np.any(bad):
            i = int(np.flatnonzero(bad)[0])
            out.fail(sig + fam + '/pair-sum', '%s(N=%d, len=%r): omega(k=%r) = %r, pair sum (1/N) sum_ij w_|i-j| = %r (tolerance %r)' % (
                model, N, ln, float(k[i]), float(om[i]), float(ref[i]), float(tol[i])))
            return out
        if np.any(om > N + tol):
            out.fail(sig + fam + '/exceeds-N', 'omega exceeds N=%d beyond rounding' % N)
        big = k * ln >= 1e3
        if np.any(big):
            lim = 2 * np.abs(E[big]) / (1 - np.abs(E[big])) + tol[big]
            if np.any(np.abs(om[big] - 1.0) > lim):
                out.fail(sig + fam + '/large-k-limit', 'omega does not tend to 1 for k*l >= 1e3')
        spans_small = curvature_check(out, sig, fam, N, k, om, r2, tol)
        rg = math.sqrt(N * ln * ln / 6.0)
        out.nontrivial = bool(N >= 3 and np.any(k * rg < 0.3) and np.any(k * ln > 10))
        # independence of the other k in the array (bitwise)
        g = np.random.Generator(np.random.PCG64(spec['sub_seed']))
        idx = g.permutation(len(k))[:max(1, len(k) // 2)]
        with np.errstate(all='ignore'):
            sub = np.asarray(make_chain(model, N, ln).calculate(k[idx].copy()))
        if sub.shape != idx.shape or sub.tobytes() != om[idx].tobytes():
            out.fail(sig + fam + '/not-independent-of-other-k', 'omega(k_i) depends on which other k are in the array')
        # scaling by a power of two is exact in floating point
        with np.errstate(all='ignore'):
            sc = np.asarray(make_chain(model, N, 2.0 * ln).calculate(k * 0.5))
        if sc.tobytes() != om.tobytes():
            out.fail(sig + fam + '/scaling', 'omega(k/2; 2*length scale) != omega(k; length scale)')
        # a second evaluation of the same object on other k of the same length must not see the first one
        with np.errstate(all='ignore'):
            k2 = k * 1.5
            again = np.array(om_obj.calculate(k2))
            fresh = np.asarray(make_chain(model, N, ln).calculate(k2))
        if again.tobytes() != fresh.tobytes():
            out.fail(sig + fam + '/state-leaks-between-calls', 'second calculate() on the same object differs from a fresh object')
        return out


# --------------------------------------------------------------------------- Koyama

def koyama_spec():
    valid = st.builds(lambda s, lf, pf, N: {'sigma': s, 'l_f': lf, 'lp_f': pf, 'N': N, 'valid': True},
                      specs.logfloat(-0.5, 0.5, 4), st.one_of(specs.fl(0.55, 2.0, 4), st.just(1.0)),
                      st.one_of(specs.fl(1.0, 1.0009, 8), specs.fl(1.002, 20.0, 5), specs.fl(1.002, 3.0, 5), st.just(1.0)),
                      st.integers(2, 40))
    invalid = st.builds(lambda s, lf, pf, N, which: {'sigma': s, 'l_f': lf, 'lp_f': pf, 'N': N, 'valid': False, 'which': which},
                        specs.logfloat(-0.5, 0.5, 4), specs.fl(0.55, 2.0, 4), specs.fl(1.002, 20.0, 5), st.integers(2, 40),
                        st.sampled_from(['l', 'l-equal', 'lp']))
    return st.fixed_dictionaries({'p': st.one_of(valid, valid, valid, invalid), 'k': k_strategy(1024), 'sub_seed': st.integers(0, 2 ** 31 - 1)})


def koyama_params(p):
    """(sigma, l, lp, valid)"""
    s = p['sigma']
    if p['valid']:
        l = float('%.6g' % (p['l_f'] * s))
        lp_min = 4.0 * l ** 3 / (4.0 * l * l - s * s)
        lp = lp_min * p['lp_f']
        if p['lp_f'] != 1.0:
            lp = max(float('%.9g' % lp), lp_min)
        # "lp >= lp_min" is judged by the class with its own rounding of 4 l^3/(4 l^2 - sigma^2): stay one part in 1e12 above the
        # boundary so that validity does not hinge on the last bit of that expression
        lp = max(lp, lp_min * (1.0 + 1e-12))
        return s, l, lp, True
    if p['which'] == 'l':
        return s, float('%.6g' % (s * 0.5 * min(p['l_f'] / 2.1, 0.999))), p['lp_f'], False
    if p['which'] == 'l-equal':
        return s, s / 2.0, p['lp_f'], False
    l = float('%.6g' % (p['l_f'] * s))
    lp_min = 4.0 * l ** 3 / (4.0 * l * l - s * s)
    return s, l, lp_min * min(0.999, 1.0 / p['lp_f'] + 0.4), False


# --------------------------------------------------------------------------- independent moments of the discrete wormlike chain

def koyama_angle_moments(sigma, l, lp):
    """<cos>, <cos^2> of the bond-angle distribution of the model: weight exp(-eps x) for x = cos(theta) in [-1, 1 - sigma^2/(2 l^2)]
    (two-bond overlaps excluded), eps fixed by the documented relation <cos> = l/lp - 1.  Quadrature + bracketing root finder:
    nothing of the class's closed forms is used."""
    from scipy.integrate import quad
    from scipy.optimize import brentq
    c0 = 1.0 - sigma * sigma / (2.0 * l * l)
    c1 = l / lp - 1.0

    def mom(eps):
        ref = -1.0 if eps >= 0 else c0
        w = lambda x: math.exp(-eps * (x - ref))
        z = quad(w, -1.0, c0, epsabs=0, epsrel=1e-13, limit=200)[0]
        return (quad(lambda x: x * w(x), -1.0, c0, epsabs=0, epsrel=1e-13, limit=200)[0] / z,
                quad(lambda x: x * x * w(x), -1.0, c0, epsabs=0, epsrel=1e-13, limit=200)[0] / z)
    f = lambda e: mom(e)[0] - c1
    lo, hi = -1.0, 1.0
    while f(hi) > 0 and hi < 1e4:
        hi *= 2
    while f(lo) < 0 and lo > -1e4:
        lo *= 2
    eps = brentq(f, lo, hi, xtol=1e-14, rtol=1e-14)
    return c1, mom(eps)[1], eps


def koyama_chain_moments(l, q, m2, N):
    """exact <r_n^2>, <r_n^4> for n = 1 .. N-1 bonds of length l with independent bond angles and uniform torsions, q = <u.u'>,
    m2 = <(u.u')^2>: recursion for a = <r^2>, b = <R.u>, c = <(R.u)^2>, d = <r^2 R.u>, e = <r^4> under R' = R + l u', using the
    azimuthal averages <V.u'> = q V.u and <(V.u')^2> = m2 (V.u)^2 + (1-m2)/2 (V^2 - (V.u)^2)"""
    a, b, c, d, e = l * l, l, l * l, l ** 3, l ** 4
    out = {1: (a, e)}
    for n in range(2, N):
        X = m2 * c + 0.5 * (1.0 - m2) * (a - c)
        a, b, c, d, e = (a + 2 * l * q * b + l * l, q * b + l, X + 2 * l * q * b + l * l,
                         q * d + l * a + 2 * l * X + 3 * l * l * q * b + l ** 3,
                         e + 4 * l * l * X + l ** 4 + 4 * l * q * d + 2 * l * l * a + 4 * l ** 3 * q * b)
        out[n] = (a, e)
    return out


class Koyama(Sub):
    name = 'koyama'
    doc = 'DiscreteKoyama: rejection rule, evaluability, pair-sum over N sites, limits, curvature, rigid bond, independence, scaling'
    budget = {'quick': 600, 'thorough': 48000}

    def strategy(self, tier):
        return koyama_spec()

    def check(self, spec):
        P = target()
        out = Outcome()
        sig = PID + '/Koyama/'
        s, l, lp, valid = koyama_params(spec['p'])
        N = spec['p']['N']
        out.label('valid' if valid else 'invalid-' + spec['p']['which'])
        try:
            with np.errstate(all='ignore'):
                om_obj = P.omega.DiscreteKoyama(sigma=s, l=l, length=N, lp=lp)
            raised = None
        except ValueError as exc:
            raised = exc
        except Exception as exc:   # noqa
            out.fail(sig + 'constructor-raises-' + type(exc).__name__,
                     'DiscreteKoyama(sigma=%r,l=%r,length=%d,lp=%r) [valid parameters: %s] raised %s: %s' % (s, l, N, lp, valid, type(exc).__name__, exc))
            return out
        if not valid:
            if raised is None:
                out.fail(sig + 'invalid-parameters-accepted', 'DiscreteKoyama(sigma=%r,l=%r,lp=%r) accepted (l<=sigma/2 or lp<lp_min)' % (s, l, lp))
            out.nontrivial = True
            return out
        if raised is not None:
            out.fail(sig + 'valid-parameters-rejected', 'DiscreteKoyama(sigma=%r,l=%r,length=%d,lp=%r) raised ValueError: %s' % (s, l, N, lp, raised))
            return out
        k, why = build_k(spec['k'], 96)
        if k is None:
            out.skipped = why
            return out
        k = k[k * l > 1e-5]
        if len(k) == 0:
            out.skipped = 'no-k'
            return out
        with np.errstate(all='ignore'):
            om = np.asarray(om_obj.calculate(k), dtype=float)
        regime = 'lp~lp_min' if (lp - om_obj.lp_min) / om_obj.lp_min < 0.001 else 'lp>lp_min'
        out.label(regime)
        if om.shape != k.shape or not np.all(np.isfinite(om)):
            out.fail(sig + 'not-finite', 'DiscreteKoyama(sigma=%r,l=%r,N=%d,lp=%r): omega not finite / wrong shape' % (s, l, N, lp))
            return out
        # pair sum over the N sites, kernel from the public method, sites counted here
        with np.errstate(all='ignore'):
            ref = np.zeros_like(k)
            kern = {}
            for i in range(1, N + 1):
                for j in range(i + 1, N + 1):
                    n = j - i
                    if n not in kern:
                        kern[n] = np.asarray(om_obj.koyama_kernel_fourier(k=k, n=n), dtype=float)
                    ref += kern[n]
            ref = 1.0 + 2.0 * ref / N
        tol = 64 * EPS * N * N * np.maximum(np.abs(ref), 1.0)
        bad = np.abs(om - ref) > tol
        if np.any(bad):
            i = int(np.flatnonzero(bad)[0])
            out.fail(sig + 'pair-sum', 'DiscreteKoyama(sigma=%r,l=%r,N=%d,lp=%r): omega(k=%r)=%r, (1/N) sum over all N sites of the kernel = %r' % (
                s, l, N, lp, float(k[i]), float(om[i]), float(ref[i])))
            return out
        if np.any(om > N * (1 + 1e-12)):
            out.fail(sig + 'exceeds-N', 'omega exceeds N')
        # the moments behind the kernel, from first principles (see koyama_chain_moments): the object's <r^2>, <r^4>, <cos^2>
        if hasattr(om_obj, 'kernel_base') and hasattr(om_obj, 'cos2'):
            try:
                c1_own, c2_own, eps_own = koyama_angle_moments(s, l, lp)
            except Exception:   # noqa -- the bracketing failed (extreme stiffness): not judged
                c1_own = None
                out.label('angle-moments-not-bracketed')
            if c1_own is not None:
                if abs(float(om_obj.cos2) - c2_own) > (2e-5 if regime == 'lp~lp_min' else 2e-7) * max(abs(c2_own), 1e-3):
                    out.fail(sig + 'bond-angle-second-moment', 'DiscreteKoyama(sigma=%r,l=%r,lp=%r): <cos^2> = %r, quadrature of the bond-angle distribution gives %r' % (
                        s, l, lp, float(om_obj.cos2), c2_own))
                mom = koyama_chain_moments(l, -c1_own, c2_own, N)
                for n in range(1, N):
                    r2o, r4o = om_obj.kernel_base(n)
                    a_, e_ = mom[n]
                    # the published closed form of <r^4> adds terms of size (1-q)^-4 (q = 1 - l/lp): its round-off grows like that
                    tol4 = 5e-6 + 2000 * EPS * (lp / l) ** 4
                    if abs(r2o - a_) > 1e-10 * a_ or abs(r4o - e_) > tol4 * e_:
                        out.fail(sig + 'chain-moments', 'DiscreteKoyama(sigma=%r,l=%r,lp=%r): <r^2>,<r^4> of %d bonds = %r, %r; exact recursion for independent bond angles gives %r, %r' % (
                            s, l, lp, n, float(r2o), float(r4o), a_, e_))
                        break
                out.label('moments-judged')
        # rigid bond: w_1(k) = sin(kl)/(kl) for every lp
        if N >= 2:
            w1 = kern[1]
            want = np.sinc(k * l / math.pi)
            if np.any(np.abs(w1 - want) > 1e-6 + 1e-6 * (k * l) ** 2):
                i = int(np.argmax(np.abs(w1 - want)))
                out.fail(sig + 'rigid-bond', 'nearest-neighbour kernel w_1(k=%r) = %r, rigid bond sin(kl)/(kl) = %r' % (float(k[i]), float(w1[i]), float(want[i])))
        # <r^2> curvature: freely-rotating chain with <cos> = 1 - l/lp
        q = 1.0 - l / lp
        r2 = lambda t: t * l * l * ((1 + q) / (1 - q) - 2 * q * (1 - q ** t) / (t * (1 - q) ** 2))
        curvature_check(out, sig[:-1].replace(PID + '/', PID + '/') + '/', 'frc', N, k, om, r2, tol + 1e-9 * N)
        big = k * l >= 1e3
        if np.any(big) and np.any(np.abs(om[big] - 1.0) > 4.0 / (k[big] * l) * N):
            out.fail(sig + 'large-k-limit', 'omega does not tend to 1 at large k')
        rg = math.sqrt(max(r2(N - 1) if N > 1 else l * l, l * l) / 6.0)
        out.nontrivial = bool(N >= 3 and np.any(k * rg < 0.3) and np.any(k * l > 10))
        g = np.random.Generator(np.random.PCG64(spec['sub_seed']))
        idx = g.permutation(len(k))[:max(1, len(k) // 2)]
        with np.errstate(all='ignore'):
            sub = np.asarray(P.omega.DiscreteKoyama(sigma=s, l=l, length=N, lp=lp).calculate(k[idx].copy()))
        if sub.shape != idx.shape or np.any(np.abs(sub - om[idx]) > 8 * EPS * N * np.abs(om[idx])):
            out.fail(sig + 'not-independent-of-other-k', 'omega(k_i) depends on which other k are in the array')
        # integer-typed k (whole-number wavenumbers) is the same input as the floats with these values
        ki = np.arange(1, 5, dtype=np.int64)
        try:
            with np.errstate(all='ignore'):
                om_i = np.asarray(P.omega.DiscreteKoyama(sigma=s, l=l, length=N, lp=lp).calculate(ki), dtype=float)
                om_f = np.asarray(P.omega.DiscreteKoyama(sigma=s, l=l, length=N, lp=lp).calculate(ki.astype(float)), dtype=float)
            if om_i.shape != om_f.shape or not np.array_equal(om_i, om_f, equal_nan=True):
                out.fail(sig + 'depends-on-argument-type', 'integer-typed k gives different values than the same wavenumbers as floats')
        except (ValueError, TypeError) as exc:
            out.fail(sig + 'typed-input-raises', 'DiscreteKoyama.calculate raised %s: %s for an integer-typed k array' % (type(exc).__name__, exc))
        # scaling (power of two: exact up to the root solve, which sees identical numbers)
        with np.errstate(all='ignore'):
            sc = np.asarray(P.omega.DiscreteKoyama(sigma=2 * s, l=2 * l, length=N, lp=2 * lp).calculate(k * 0.5))
        if np.any(np.abs(sc - om) > 1e-9 * N * np.maximum(1.0, np.abs(om))):
            out.fail(sig + 'scaling', 'omega(k/2; 2 sigma, 2 l, 2 lp) != omega(k; sigma, l, lp)')
        return out


# --------------------------------------------------------------------------- NFJC

_NFJC_X = None


def nfjc_reference(N, q):
    """(1/N) sum_ij w_|i-j|(q), q = k*l:  w_1 = sin q/q,  w_tau = B_tau (E^tau - J_tau(q)) for tau >= 2 with
    J0_tau = (2/pi) int (sin x/x)^tau (sin x/x - cos x) dx,  B_tau = 1/(1-J0_tau),
    J_tau(q) = int x/(pi q) [sinc(q-x) - sinc(q+x)] (sin x/x)^tau dx   (x in (0,100], the documented truncation)"""
    from scipy.integrate import simpson
    global _NFJC_X
    if _NFJC_X is None:
        _NFJC_X = np.linspace(0.0, 100.0, 5001)[1:]
    x = _NFJC_X
    sx = np.sinc(x / math.pi)
    E = np.sinc(q / math.pi)
    Q, X = np.meshgrid(q, x, indexing='ij')
    zbase = X / (math.pi * Q) * (np.sinc((Q - X) / math.pi) - np.sinc((Q + X) / math.pi))
    tot = (N - 1) * E
    for tau in range(2, N):
        st_ = sx ** tau
        # the integrands vanish at x = 0: prepend that node so Simpson sees the whole range [0,100]
        j0 = 2.0 / math.pi * simpson(np.concatenate([[0.0], st_ * (sx - np.cos(x))]), x=np.concatenate([[0.0], x]))
        B = 1.0 / (1.0 - j0)
        J = simpson(np.concatenate([np.zeros((len(q), 1)), zbase * st_], axis=1), x=np.concatenate([[0.0], x]), axis=1)
        tot = tot + (N - tau) * B * (E ** tau - J)
    return 1.0 + 2.0 * tot / N


class NFJC(Sub):
    name = 'nfjc'
    doc = 'NonOverlappingFreelyJointedChain: evaluability/finiteness on Domain grids, limits, bound, independence, k*l scaling'
    budget = {'quick': 120, 'thorough': 4800}

    def strategy(self, tier):
        kk = st.one_of(st.lists(specs.logfloat(-3, 2, 6), min_size=1, max_size=12).map(lambda v: {'kind': 'log', 'values': sorted(set(v))}),
                       st.builds(lambda d, seed, m: {'kind': 'subsample', 'domain': d, 'seed': seed, 'm': m},
                                 st.builds(lambda n, s, w: {'length': n, w: s}, st.sampled_from([64, 100, 128, 256, 1000, 1024]),
                                           st.sampled_from([0.1, 0.05, 0.2, 0.25, 0.5]), st.sampled_from(['dk', 'dr', 'dk'])),
                                 st.integers(0, 2 ** 31 - 1), st.integers(4, 24)))
        return st.fixed_dictionaries({'N': st.integers(2, 16), 'l': st.sampled_from([1.0, 1.0, 0.5, 2.0, 1.5, 0.8]), 'alias': st.booleans(),
                                      'k': kk, 'sub_seed': st.integers(0, 2 ** 31 - 1)})

    def check(self, spec):
        P = target()
        out = Outcome()
        sig = PID + '/NFJC/'
        N, l = spec['N'], spec['l']
        cls = P.omega.NFJC if spec['alias'] else P.omega.NonOverlappingFreelyJointedChain
        k, why = build_k(spec['k'], 24)
        if k is None:
            out.skipped = why
            return out
        with warnings.catch_warnings():
            warnings.simplefilter('ignore')
            obj = cls(length=N, l=l)
            try:
                with np.errstate(all='ignore'):
                    om = np.asarray(obj.calculate(k), dtype=float)
            except (AttributeError, TypeError) as exc:
                out.fail(sig + 'cannot-be-evaluated', 'NFJC(length=%d,l=%r).calculate(k) raised %s: %s' % (N, l, type(exc).__name__, exc))
                return out
        out.label('k=' + spec['k']['kind'], 'l=1' if l == 1.0 else 'l!=1')
        if om.shape != k.shape or not np.all(np.isfinite(om)):
            i = int(np.flatnonzero(~np.isfinite(om))[0]) if om.shape == k.shape else 0
            out.fail(sig + 'not-finite', 'NFJC(length=%d,l=%r): omega(k=%r) = %r' % (N, l, float(k[i]), float(om[i]) if om.shape == k.shape else None))
            return out
        # the ideal part is the documented FJC closed form: its inherent rounding (cancellation at small k*l) is allowed for
        with np.errstate(all='ignore'):
            E = np.sinc(k * l / math.pi)
            cft = closed_form_tol(N, E, np.full_like(k, float(N)))
        if np.any(om > N * (1 + 1e-3) + cft):
            out.fail(sig + 'exceeds-N', 'NFJC omega exceeds N: max %r for N=%d' % (float(np.max(om)), N))
        small = k * l * math.sqrt(N) < 0.05
        if np.any(small) and np.any(np.abs(om[small] - N) > 5e-3 * N + cft[small]):
            out.fail(sig + 'small-k-limit', 'NFJC omega(k->0) = %r, expected N=%d' % (float(om[small][0]), N))
        big = k * l >= 50
        if np.any(big) and np.any(np.abs(om[big] - 1.0) > 0.2):
            out.fail(sig + 'large-k-limit', 'NFJC omega(k l >= 50) = %r, expected ~1' % float(om[big][0]))
        out.nontrivial = N >= 3
        # pair-sum structure: own sum over separations with w_1 = sin(kl)/(kl) and w_tau from the documented integrals
        # evaluated by an own, 5x finer Simpson quadrature on the same range (judged where the shipped dx=0.1 resolves k)
        mid = (k * l <= 5.0) & (k * l >= 0.05)
        if N >= 3 and np.any(mid):
            ref = nfjc_reference(N, k[mid] * l)
            dev = np.abs(om[mid] - ref)
            lim = 2e-3 * N + cft[mid]
            out.info['nfjc_max_dev_vs_own_quadrature'] = float(np.max(dev))
            if np.any(dev > lim):
                i = int(np.argmax(dev - lim))
                out.fail(sig + 'pair-sum', 'NFJC(N=%d,l=%r): omega(k=%r) = %r, own pair sum over separations with finer quadrature = %r' % (
                    N, l, float(k[mid][i]), float(om[mid][i]), float(ref[i])))
        # a second object with another bond length evaluated on the very same k array (two chain species of one System share
        # domain.k): its values must not depend on the first object having been evaluated before
        l2 = 1.6 * l if l <= 1.0 else 0.5 * l
        mid2 = (k * l2 <= 5.0) & (k * l2 >= 0.05)
        if N >= 3 and np.any(mid2):
            with warnings.catch_warnings():
                warnings.simplefilter('ignore')
                with np.errstate(all='ignore'):
                    om2 = np.asarray(cls(length=N, l=l2).calculate(k), dtype=float)
            ref2 = nfjc_reference(N, k[mid2] * l2)
            E2 = np.sinc(k[mid2] * l2 / math.pi)
            lim2 = 2e-3 * N + closed_form_tol(N, E2, np.full(int(np.count_nonzero(mid2)), float(N)))
            if om2.shape != k.shape or np.any(np.abs(om2[mid2] - ref2) > lim2):
                out.fail(sig + 'depends-on-other-instances', 'NFJC(N=%d,l=%r) evaluated on the same k array after NFJC(l=%r) differs from its own pair sum by %.3g' % (
                    N, l2, l, float(np.max(np.abs(om2[mid2] - ref2))) if om2.shape == k.shape else float('nan')))
        with warnings.catch_warnings():
            warnings.simplefilter('ignore')
            g = np.random.Generator(np.random.PCG64(spec['sub_seed']))
            idx = g.permutation(len(k))[:max(1, len(k) // 2)]
            with np.errstate(all='ignore'):
                sub = np.asarray(cls(length=N, l=l).calculate(k[idx].copy()))
                if sub.shape != idx.shape or np.any(np.abs(sub - om[idx]) > 1e-12 * N):
                    out.fail(sig + 'not-independent-of-other-k', 'omega(k_i) depends on which other k are in the array')
                try:
                    ki = np.arange(1, 5, dtype=np.int64)
                    om_i = np.asarray(cls(length=N, l=l).calculate(ki), dtype=float)
                    om_f = np.asarray(cls(length=N, l=l).calculate(ki.astype(float)), dtype=float)
                    if om_i.shape != om_f.shape or not np.array_equal(om_i, om_f, equal_nan=True):
                        out.fail(sig + 'depends-on-argument-type', 'integer-typed k gives different values than the same wavenumbers as floats')
                except (ValueError, TypeError) as exc:
                    out.fail(sig + 'typed-input-raises', 'NFJC.calculate raised %s: %s for an integer-typed k array' % (type(exc).__name__, exc))
                # only k*l can matter for a chain whose single length scale is l
                sc = np.asarray(cls(length=N, l=2.0 * l).calculate(k * 0.5))
            if np.any(np.abs(sc - om) > 1e-9 * N):
                i = int(np.argmax(np.abs(sc - om)))
                out.fail(sig + 'scaling', 'NFJC(l=%r) at k=%r gives %r but NFJC(l=%r) at k/2 gives %r: omega is not a function of k*l' % (
                    l, float(k[i]), float(om[i]), 2 * l, float(sc[i])))
        return out


# --------------------------------------------------------------------------- constant models

class Constant(Sub):
    name = 'constant'
    doc = 'SingleSite == 1, NoIntra == InterMolecular == 0 with the shape and dtype of k'
    budget = {'quick': 100, 'thorough': 1600}

    def strategy(self, tier):
        return st.fixed_dictionaries({'model': st.sampled_from(['SingleSite', 'NoIntra', 'InterMolecular']), 'k': k_strategy(4096)})

    def check(self, spec):
        P = target()
        out = Outcome()
        k, why = build_k(spec['k'])
        if k is None:
            out.skipped = why
            return out
        v = np.asarray(getattr(P.omega, spec['model'])().calculate(k))
        want = 1.0 if spec['model'] == 'SingleSite' else 0.0
        out.nontrivial = len(k) >= 2
        out.label('model=' + spec['model'])
        if v.shape != k.shape or v.dtype != k.dtype or np.any(v != want):
            out.fail(PID + '/' + spec['model'] + '/constant', '%s.calculate(k) is not an array of %r with the shape/dtype of k' % (spec['model'], want))
        if spec['model'] == 'InterMolecular' and not isinstance(P.omega.InterMolecular(), P.omega.NoIntra):
            out.fail(PID + '/InterMolecular/not-alias', 'InterMolecular is not a NoIntra')
        return out


SUBS = [Chains(), Koyama(), NFJC(), Constant()]
