"""C05 -- every calculate.* quantity equals its definition and the cross-identities hold."""
import copy
import math
import warnings

import numpy as np
from hypothesis import strategies as st

from . import build, specs
from . import oracles as O
from .core import Sub, Outcome, target

PID = 'C05'
SHARDS = {'quick': 4, 'thorough': 16}
RULE = ('Hand-populated PRISM objects: rank 1-4, length 8-64, generated densities, diameters (equal and unequal), kT; totalCorr / '
        'directCorr / omega data overwritten with generated symmetric arrays (random, smooth, bounded so that 1+CSC>0, or '
        'self-consistent H=(I-OC)^-1 OCO), totalCorr left in real or Fourier space as a solve / a previous call leaves it; plus solved '
        '2- and 3-component systems. Every calculate function is called with every flag value, each on a fresh deep copy, and compared '
        'with the documented definition evaluated by explicit per-k / per-pair loops on copies taken before the call (Lagrange '
        'extrapolation instead of polyfit). Non-trivial = rank >= 2 and h, C, omega all non-zero; distinct = spec hash; label '
        '"later-pair" = rank >= 3 (pairs beyond the first are judged).')
ASSUMPTIONS = ['arrays are in the spaces a solve leaves them in (totalCorr real or Fourier, directCorr and omega Fourier); other space '
               'configurations are C06\'s subject',
               'spinodal_condition(extrapolate=False): the statement only fixes the k->0 limit, so the lowest-k value or the extrapolated '
               'value is accepted',
               'chi: exact formula for equal site volumes; for unequal volumes linearity in C and the weight ratios 1/R : R : -2 (overall '
               'prefactor not pinned, as in the statement); rho = Density.total',
               'Domain.to_fourier/to_real are used to bring copies to the other space (their correctness is C07/C08\'s subject)']
EPS = np.finfo(float).eps
NAMES = ['A', 'B', 'C', 'D']


# ----------------------------------------------------------------------------- building

def spec_strategy():
    def body(rank):
        return st.fixed_dictionaries({
            'rank': st.just(rank), 'length': st.integers(8, 64), # the unit of length is arbitrary: the same problem written in a much smaller or larger unit has dr (and 1/dk) of any size
            'dr': st.sampled_from([0.1, 0.05, 0.2, 0.25, 0.075, 0.1, 2.0, 40.0, 500.0, 0.002]),
            'rho': st.lists(st.one_of(specs.logfloat(-2, 0.3, 4), specs.logfloat(-2, 0.3, 4), specs.logfloat(-12, -2, 4)), min_size=rank, max_size=rank),
            'dia': st.one_of(st.just([1.0] * rank), st.lists(st.sampled_from([1.0, 0.5, 1.5, 2.0, 0.8, 3.0]), min_size=rank, max_size=rank)),
            'kT': st.one_of(st.just(1.0), specs.logfloat(-0.5, 0.7, 4)),
            'mode': st.sampled_from(['random', 'bounded', 'selfconsistent', 'random']),
            'h': specs.array_desc(8, (-1, 0.5)), 'c': specs.array_desc(8, (-1, 0.5)), 'omega': specs.array_desc(8, (-0.5, 1)),
            'h_space': st.sampled_from(['real', 'fourier'])})
    return st.sampled_from([1, 2, 2, 3, 3, 4]).flatmap(body)


def populate(spec):
    """build a PRISM object and overwrite its arrays; returns (prism, snapshot dict of plain arrays)"""
    P = target()
    rank, n = spec['rank'], spec['length']
    # type names are arbitrary labels, not the default letters in order
    types = [NAMES, ['D', 'B', 'A', 'C'], ['solvent', 'polymer', 'filler', 'ion'], ['b', 'a', 'd', 'c']][n % 4][:rank]
    s = P.System(types, kT=spec['kT'])
    s.domain = P.Domain(length=n, dr=spec['dr'])
    for t, r, d in zip(types, spec['rho'], spec['dia']):
        s.density[t] = r
        s.diameter[t] = d
    s.potential[types, types] = P.potential.HardSphere()
    s.closure[types, types] = P.closure.PercusYevick()
    s.omega[types, types] = P.omega.NoIntra()
    for t in types:
        s.omega[t, t] = P.omega.SingleSite()
    with warnings.catch_warnings():
        warnings.simplefilter('ignore')
        pr = s.createPRISM()
    site = pr.sys.density.site.data[0]
    pair = pr.sys.density.pair.data[0]
    h = build.sym_matrix_array(spec['h'], n, rank).data
    c = build.sym_matrix_array(spec['c'], n, rank).data
    w = np.abs(build.sym_matrix_array(spec['omega'], n, rank).data) + 0.1
    mode = spec['mode']
    if mode == 'bounded':
        c = 0.02 * np.tanh(c)
        h = np.tanh(h)
        w = 1.0 + np.tanh(w)
    om = w * site                       # omega as PRISM stores it: density scaled
    if mode == 'selfconsistent':
        c = 0.05 * np.tanh(c) / max(1.0, float(np.max(om)))
        H = np.empty_like(c)
        for i in range(n):
            oc = om[i] @ c[i]
            H[i] = np.linalg.solve(np.eye(rank) - oc, oc @ om[i])
        H = 0.5 * (H + np.transpose(H, (0, 2, 1)))
        h_four = H / pair
        h = h_four
        h_space = 'fourier'
    else:
        h_space = spec['h_space']
    pr.totalCorr.data = np.array(h)
    pr.totalCorr.space = P.Space.Real if h_space == 'real' else P.Space.Fourier
    pr.directCorr.data = np.array(c)
    pr.directCorr.space = P.Space.Fourier
    pr.omega.data = np.array(om)
    pr.omega.space = P.Space.Fourier
    return pr


def snapshot(pr):
    """plain-array view of everything the definitions need, in canonical spaces, from copies"""
    P = target()
    dom = pr.sys.domain
    rank = pr.sys.rank
    h = np.array(pr.totalCorr.data)
    if pr.totalCorr.space == P.Space.Real:
        h_real = h
        h_four = np.empty_like(h)
        for a in range(rank):
            for b in range(rank):
                h_four[:, a, b] = dom.to_fourier(h[:, a, b])
    else:
        h_four = h
        h_real = np.empty_like(h)
        for a in range(rank):
            for b in range(rank):
                h_real[:, a, b] = dom.to_real(h[:, a, b])
    return {'h_real': h_real, 'h_four': h_four, 'c': np.array(pr.directCorr.data), 'om': np.array(pr.omega.data),
            'site': np.array(pr.sys.density.site.data[0]), 'pair': np.array(pr.sys.density.pair.data[0]),
            'rho': [pr.sys.density[t] for t in pr.sys.types], 'dia': [pr.sys.diameter[t] for t in pr.sys.types],
            'total': float(pr.sys.density.total), 'kT': float(pr.sys.kT), 'k': np.array(dom.k), 'types': list(pr.sys.types)}


def close(a, b, scale, rel=1e-9):
    a = np.asarray(a, dtype=float)
    b = np.asarray(b, dtype=float)
    with np.errstate(all='ignore'):
        ok = np.abs(a - b) <= rel * np.maximum(scale, 1e-300)
        ok |= (np.isnan(a) & np.isnan(b)) | (np.isinf(a) & np.isinf(b) & (np.sign(a) == np.sign(b)))
    return bool(np.all(ok))


def pairs(types, full=True):
    for i, a in enumerate(types):
        for j, b in enumerate(types):
            if full or i < j:
                yield i, j, a, b


# ----------------------------------------------------------------------------- the definitions

def judge(pr0, snap, out, sig):
    """call every calculate function with every flag value, each on a fresh copy of pr0"""
    P = target()
    C = P.calculate
    types, rank = snap['types'], len(snap['types'])
    k = snap['k']
    k3 = k[:3]
    fresh = lambda: copy.deepcopy(pr0)

    # an argument that has its documented default value (normalize=True, extrapolate=True, closure='HNC') is left out in every
    # second case (decided by the data of the case, so that a replay does the same): both spellings of the default must behave alike
    strip_defaults = int(np.asarray(snap['rho'], dtype=float).sum() * 1e6) % 2 == 0

    def call(f, *a, **kw):
        if strip_defaults:
            kw = {k_: v for k_, v in kw.items() if (k_, v) not in (('normalize', True), ('extrapolate', True), ('closure', 'HNC'))}
        with warnings.catch_warnings():
            warnings.simplefilter('ignore')
            with np.errstate(all='ignore'):
                return f(*a, **kw)

    def sym_ma(res, name):
        # the result is addressed by type names by its users: labels and name-keyed reads must agree with the positional data
        if list(getattr(res, 'types', [])) != list(types):
            out.fail(sig + name + '/result-types', '%s: result carries types %r, the system has %r' % (name, list(getattr(res, 'types', [])), list(types)))
        else:
            for i_, a_ in enumerate(types):
                for j_, b_ in enumerate(types):
                    try:
                        ok_ = np.array_equal(np.asarray(res[a_, b_]), res.data[:, i_, j_], equal_nan=True)
                    except Exception as exc_:   # noqa
                        ok_ = False
                    if not ok_:
                        out.fail(sig + name + '/named-access', '%s: result[%r,%r] is not the (%d,%d) pair function of the result' % (name, a_, b_, i_, j_))
                        break
        d = res.data
        if not np.array_equal(d, np.transpose(d, (0, 2, 1)), equal_nan=True):
            out.fail(sig + name + '/result-not-symmetric', '%s: returned pair functions differ between (a,b) and (b,a)' % name)

    # pair_correlation = h + 1
    g = call(C.pair_correlation, fresh())
    want = snap['h_real'] + 1.0
    if g.data.shape != want.shape or not close(g.data, want, np.abs(want) + 1.0, 1e-12):
        out.fail(sig + 'pair_correlation/definition', 'pair_correlation != h(r)+1')
    sym_ma(g, 'pair_correlation')
    # pmf = -kT ln g
    w = call(C.pmf, fresh())
    with np.errstate(all='ignore'):
        wantw = -snap['kT'] * np.log(want)
    pos = want > 1e-6
    if w.data.shape != want.shape or not close(w.data[pos], wantw[pos], np.abs(wantw[pos]) + snap['kT'] * 1e-3 / np.maximum(want[pos], 1e-6), 1e-9):
        out.fail(sig + 'pmf/definition', 'pmf != -kT ln g where g > 0')
    neg = want < 0
    if w.data.shape == want.shape and np.any(neg) and not np.all(np.isnan(w.data[neg])):
        out.fail(sig + 'pmf/negative-g-not-nan', 'pmf is not NaN where g < 0')
    sym_ma(w, 'pmf')
    # structure_factor
    S = {}
    for norm in (True, False):
        res = call(C.structure_factor, fresh(), normalize=norm)
        wantS = snap['om'] + snap['pair'] * snap['h_four']
        scale = np.abs(snap['om']) + np.abs(snap['pair'] * snap['h_four'])
        if norm:
            wantS = wantS / snap['site']
            scale = scale / snap['site']
        S[norm] = np.array(res.data)
        if res.data.shape != wantS.shape or not close(res.data, wantS, scale, 1e-11):
            a, b = np.unravel_index(np.argmax(np.max(np.abs(res.data - wantS), axis=0)), (rank, rank))
            out.fail(sig + 'structure_factor/definition', 'structure_factor(normalize=%s)[%s,%s] != (rho_site*omega + rho_pair*h)%s' % (
                norm, types[a], types[b], '/rho_site' if norm else ''), got=res.data[:3, a, b], want=wantS[:3, a, b])
        sym_ma(res, 'structure_factor')
    # on self-consistent objects S_unnormalised = (I - Omega C)^-1 Omega
    if 'selfconsistent' in out.labels:
        worst = 0.0
        for i in range(len(k)):
            ref = np.linalg.solve(np.eye(rank) - snap['om'][i] @ snap['c'][i], snap['om'][i])
            worst = max(worst, float(np.max(np.abs(S[False][i] - ref)) / max(1e-300, float(np.max(np.abs(ref))))))
        if worst > 1e-8:
            out.fail(sig + 'structure_factor/self-consistent-identity', 'S(k) != (I-Omega C)^-1 Omega on a self-consistent object (rel. %.2g)' % worst)
    # second_virial
    for ex in (True, False):
        B2 = call(C.second_virial, fresh(), extrapolate=ex)
        for i, j, a, b in pairs(types):
            y = -0.5 * snap['h_four'][:3, i, j]
            wantb = O.lagrange0(k3, y) if ex else y[0]
            got = B2[a, b]
            if got is None or not close(got, wantb, np.max(np.abs(y)) * 8, 1e-8):
                out.fail(sig + 'second_virial/definition', 'second_virial(extrapolate=%s)[%s,%s] = %r, definition gives %r' % (ex, a, b, got, wantb))
                break
            if B2[b, a] is None or not close(B2[b, a], got, abs(wantb) + 1e-300, 1e-12):
                out.fail(sig + 'second_virial/result-not-symmetric', 'second_virial[%s,%s] != [%s,%s]' % (a, b, b, a))
                break
    if rank == 1:
        for name, f, kw in (('chi', C.chi, {}), ('spinodal_condition', C.spinodal_condition, {}), ('solvation_potential', C.solvation_potential, {})):
            try:
                call(f, fresh(), **kw)
                out.fail(sig + name + '/rank-1-accepted', '%s accepted a one-component object' % name)
            except AssertionError:
                pass
        return
    # spinodal_condition: k->0 limit of det(I - Omega C) of the pair's 2x2 block
    for ex in (True, False):
        lam = call(C.spinodal_condition, fresh(), extrapolate=ex)
        for i, j, a, b in pairs(types, full=False):
            om2 = snap['om'][:3][:, [i, j]][:, :, [i, j]]
            c2 = snap['c'][:3][:, [i, j]][:, :, [i, j]]
            det = np.array([np.linalg.det(np.eye(2) - om2[m] @ c2[m]) for m in range(3)])
            mag = 1.0 + np.max(np.abs(om2)) * np.max(np.abs(c2)) * 4 + (np.max(np.abs(om2)) * np.max(np.abs(c2))) ** 2 * 4
            want0 = O.lagrange0(k3, det)
            got = lam[a, b]
            ok = got is not None and (close(got, want0, mag * 8, 1e-8) or (not ex and close(got, det[0], mag, 1e-8)))
            if not ok:
                out.fail(sig + 'spinodal_condition/definition', 'spinodal_condition(extrapolate=%s)[%s,%s] = %r, k->0 limit of det(I-Omega C) of the 2x2 block = %r' % (
                    ex, a, b, got, want0), pair_index=[i, j], rank=rank)
                break
            if lam[b, a] is None or not close(lam[b, a], got, abs(want0) + 1e-300, 1e-12):
                out.fail(sig + 'spinodal_condition/result-not-symmetric', 'spinodal_condition[%s,%s] != [%s,%s]' % (a, b, b, a))
                break
    # chi
    for ex in (True, False):
        ch = call(C.chi, fresh(), extrapolate=ex)
        for i, j, a, b in pairs(types, full=False):
            caa, cbb, cab = snap['c'][:, i, i], snap['c'][:, j, j], snap['c'][:, i, j]
            got = ch[a, b]
            if got is None:
                out.fail(sig + 'chi/missing-pair', 'chi[%s,%s] is None' % (a, b))
                break
            if snap['dia'][i] == snap['dia'][j]:
                curve = 0.5 * snap['total'] * (caa + cbb - 2 * cab)
                wantc = O.lagrange0(k3, curve[:3]) if ex else curve
                scale = 0.5 * snap['total'] * (np.abs(caa) + np.abs(cbb) + 2 * np.abs(cab))
                scale = np.max(scale[:3]) * 8 if ex else scale
                if np.shape(got) != np.shape(wantc) or not close(got, wantc, scale, 1e-8):
                    out.fail(sig + 'chi/definition-equal-volumes', 'chi(extrapolate=%s)[%s,%s] != (rho/2)(C_aa+C_bb-2C_ab) for equal site volumes' % (ex, a, b),
                             got=np.ravel(got)[:3], want=np.ravel(wantc)[:3])
                    break
            if ch[b, a] is None or not close(ch[b, a], got, np.abs(got) + 1e-300, 1e-12):
                out.fail(sig + 'chi/result-not-symmetric', 'chi[%s,%s] != [%s,%s]' % (a, b, b, a))
                break
    # chi: linear in C with weights 1/R : R : -2  (judged on chi(k), all volumes)
    if rank >= 2:
        i, j = 0, rank - 1
        a, b = types[i], types[j]
        R = (snap['dia'][i] / snap['dia'][j]) ** 3
        probe = 1.0 + 0.5 * np.cos(np.arange(len(k)) * 0.7)
        parts = []
        for (p, q) in ((i, i), (j, j), (i, j)):
            pr = fresh()
            d = np.zeros_like(snap['c'])
            d[:, p, q] = probe
            d[:, q, p] = probe
            pr.directCorr.data = d
            parts.append(np.asarray(call(C.chi, pr, extrapolate=False)[a, b], dtype=float))
        full = np.asarray(call(C.chi, fresh(), extrapolate=False)[a, b], dtype=float)
        sup = parts[0] * snap['c'][:, i, i] / probe + parts[1] * snap['c'][:, j, j] / probe + parts[2] * snap['c'][:, i, j] / probe
        scale = np.abs(parts[0] * snap['c'][:, i, i]) + np.abs(parts[1] * snap['c'][:, j, j]) + np.abs(parts[2] * snap['c'][:, i, j])
        if not close(full, sup, scale / np.abs(probe) + 1e-300, 1e-9):
            out.fail(sig + 'chi/not-linear-in-C', 'chi is not the superposition of its responses to C_aa, C_bb, C_ab')
        elif np.all(parts[2] != 0):
            r1 = parts[0] / parts[2]
            r2 = parts[1] / parts[2]
            if not (close(r1, -0.5 / R, 1.0 / R, 1e-9) and close(r2, -0.5 * R, R, 1e-9)):
                out.fail(sig + 'chi/weight-ratios', 'chi weights of C_aa : C_bb : C_ab are %r : %r : -2, expected 1/R : R : -2 with R=%r' % (
                    float(-2 * r1[0]), float(-2 * r2[0]), R))
    # solvation_potential
    Sret = np.array(call(C.structure_factor, fresh()).data)
    dom = pr0.sys.domain
    for clo in ('HNC', 'PY'):
        psi = call(C.solvation_potential, fresh(), closure=clo)
        csc = np.empty_like(snap['c'])
        mag = np.empty_like(snap['c'])
        for m in range(len(k)):
            csc[m] = snap['c'][m] @ Sret[m] @ snap['c'][m]
            mag[m] = np.abs(snap['c'][m]) @ np.abs(Sret[m]) @ np.abs(snap['c'][m])
        with np.errstate(all='ignore'):
            fk = -snap['kT'] * csc if clo == 'HNC' else -snap['kT'] * np.log(1.0 + csc)
        wantp = np.empty_like(fk)
        for p in range(rank):
            for q in range(rank):
                with np.errstate(all='ignore'):
                    wantp[:, p, q] = dom.to_real(fk[:, p, q])
        finite = np.all(np.isfinite(fk), axis=0)
        ok = psi.data.shape == wantp.shape
        if ok:
            for p in range(rank):
                for q in range(rank):
                    if finite[p, q]:
                        sc = np.max(np.abs(wantp[:, p, q])) + np.max(np.abs(fk[:, p, q])) * 1e-3
                        # C S C can be a small difference of large terms (C_ab ~ -C_aa): its rounding is relative to the terms,
                        # |C||S||C|, and reaches r-space through sum_k coeff_k |.| / r
                        with np.errstate(all='ignore'):
                            amp = 1.0 / np.maximum(np.abs(1.0 + csc[:, p, q]), 1e-300) if clo == 'PY' else 1.0      # d ln(1+x)/dx
                            termbound = 2.0 * float(np.sum(dom.DST_III_coeffs * snap['kT'] * mag[:, p, q] * amp)) / dom.r
                        ok = ok and bool(np.all(np.abs(psi.data[:, p, q] - wantp[:, p, q]) <= 1e-8 * sc + 1e3 * EPS * termbound))
                    else:
                        ok = ok and not np.all(np.isfinite(psi.data[:, p, q]))
        if not ok:
            out.fail(sig + 'solvation_potential/definition', 'solvation_potential(closure=%s) != back-transform of %s' % (
                clo, '-kT*C S C' if clo == 'HNC' else '-kT*ln(1+C S C)'))
        if psi.space != target().Space.Real:
            out.fail(sig + 'solvation_potential/space-flag', 'solvation_potential result is not flagged Real')
        if bool(np.all(finite)):
            sym_ma(psi, 'solvation_potential')
        out.label('psi-%s-%s' % (clo, 'finite' if bool(np.all(finite)) else 'nan-branch'))


class Populated(Sub):
    name = 'populated'
    doc = 'hand-populated PRISM objects of rank 1-4: all seven calculate functions x all flag values vs loop-level definitions'
    budget = {'quick': 400, 'thorough': 96000}

    def strategy(self, tier):
        return spec_strategy()

    def check(self, spec):
        out = Outcome()
        pr = populate(spec)
        snap = snapshot(pr)
        out.label('rank=%d' % spec['rank'], spec['mode'], 'h-' + ('fourier' if spec['mode'] == 'selfconsistent' else spec['h_space']),
                  'equal-volumes' if len(set(spec['dia'])) == 1 else 'unequal-volumes')
        if spec['rank'] >= 3:
            out.label('later-pair')
        out.nontrivial = bool(spec['rank'] >= 2 and np.any(snap['h_real'] != 0) and np.any(snap['c'] != 0) and np.any(snap['om'] != 0))
        judge(pr, snap, out, PID + '/')
        return out


class Solved(Sub):
    name = 'solved'
    doc = 'genuinely solved 2- and 3-component hard-sphere / exponential systems: same definitions on the converged object'
    budget = {'quick': 12, 'thorough': 1600}
    shrink = {'quick': False, 'thorough': True}

    def strategy(self, tier):
        return st.fixed_dictionaries({
            'rank': st.sampled_from([2, 3]), 'eta': specs.fl(0.05, 0.3, 3), 'split': st.lists(specs.fl(0.2, 1.0, 3), min_size=3, max_size=3),
            'dia': st.lists(st.sampled_from([1.0, 1.0, 1.5, 2.0]), min_size=3, max_size=3), 'eps': specs.fl(-0.4, 0.4, 3),
            'kT': specs.logfloat(-0.2, 0.4, 3), 'length': st.sampled_from([256, 512]), 'chain': st.sampled_from([1, 1, 8, 20])})

    def check(self, spec):
        P = target()
        out = Outcome()
        rank = spec['rank']
        types = NAMES[:rank]
        s = P.System(types, kT=spec['kT'])
        s.domain = P.Domain(length=spec['length'], dr=0.1)
        w = np.asarray(spec['split'][:rank])
        w = w / w.sum()
        for t, d, f in zip(types, spec['dia'], w):
            s.diameter[t] = d
            s.density[t] = float('%.6g' % (spec['eta'] * f * 6.0 / (math.pi * d ** 3)))
        s.potential[types, types] = P.potential.HardSphere()
        s.potential[types[0], types[-1]] = P.potential.Exponential(epsilon=spec['eps'], alpha=0.5)
        s.closure[types, types] = P.closure.PercusYevick()
        s.omega[types, types] = P.omega.NoIntra()
        for t in types:
            s.omega[t, t] = P.omega.SingleSite()
        if spec['chain'] > 1:
            s.omega[types[0], types[0]] = P.omega.FreelyJointedChain(length=spec['chain'], l=spec['dia'][0])
        with warnings.catch_warnings():
            warnings.simplefilter('ignore')
            with np.errstate(all='ignore'):
                pr = s.createPRISM()
                res = pr.solve(method='krylov', options={'disp': False, 'maxiter': 80})
        if not res.success:
            out.skipped = 'not-converged'
            return out
        out.label('rank=%d' % rank, 'solved')
        if rank >= 3:
            out.label('later-pair')
        out.nontrivial = True
        judge(pr, snapshot(pr), out, PID + '/')
        return out


SUBS = [Populated(), Solved()]
