"""Generated PRISM systems shared by the solver-level checks (C01-C04, C06, C16).

A *system spec* is a JSON dict (see ``system_spec``); ``build_system`` turns it into a pyPRISM System, ``reference`` into the
independent inputs (omega_ref(k), u_ref(r)/kT, densities, sigma) computed by pbt.oracles / own loops -- never by pyPRISM.
"""
import json
import math
import warnings

import numpy as np
from hypothesis import strategies as st

from . import oracles as O
from . import specs
from .core import target

NAMES = ['A', 'B', 'C', 'D']
DIVERGENT = ('HardSphere', 'Exponential', 'HardCoreLennardJones')


def key(i, j):
    return '%d,%d' % (min(i, j), max(i, j))


def pair_indices(n):
    return [(i, j) for i in range(n) for j in range(i, n)]


# ----------------------------------------------------------------------------- strategy

def _omega_self(d, big):
    nmax = 100 if big else 40
    n = st.one_of(st.integers(2, 12), st.integers(2, nmax))
    lf = st.sampled_from([1.0, 1.0, 1.2, 4.0 / 3.0])
    return st.one_of(
        st.just(['SingleSite', {}]), st.just(['SingleSite', {}]),
        st.builds(lambda N: ['Gaussian', {'length': N, 'sigma': d}], n),
        st.builds(lambda N, f: ['FreelyJointedChain', {'length': N, 'l': float('%.6g' % (f * d))}], n, lf),
        st.builds(lambda N: ['GaussianRing', {'length': max(3, N), 'sigma': d}], n),
        st.builds(lambda N, f: ['DiscreteKoyama', {'length': min(N, 12), 'sigma': d, 'l': d, 'lp': float('%.6g' % (f * 4.0 * d / 3.0))}],
                  n, st.sampled_from([1.001, 1.2, 2.0])))


def _potential(kT):
    e = lambda hi: specs.fl(-hi, hi, 3).map(lambda v: float('%.4g' % (v * kT)))
    ep = lambda hi: specs.fl(0.05, hi, 3).map(lambda v: float('%.4g' % (v * kT)))
    hs = st.just(['HardSphere', {}])
    return st.one_of(
        hs, hs,
        st.builds(lambda eps, a: ['Exponential', {'epsilon': eps, 'alpha': a}], e(0.6), st.sampled_from([0.25, 0.5, 1.0])),
        st.builds(lambda eps: ['HardCoreLennardJones', {'epsilon': eps}], e(0.5)),
        st.builds(lambda eps, sh, rc: ['LennardJones', {'epsilon': eps, 'rcut_f': rc, 'shift': sh}], ep(0.6), st.booleans(),
                  st.sampled_from([2.5, None, 2.0])),
        st.builds(lambda eps: ['WeeksChandlerAndersen', {'epsilon': eps}], ep(1.0)))


def _closure(single_site_pair, pot_name):
    names = ['PY', 'PY', 'PY', 'MSA', 'MS']
    if single_site_pair:
        names += ['HNC', 'HNC']

    def fix(name, flag):
        # MSA / MS are documented not to work on divergent potentials without the hard-core flag
        if name in ('MSA', 'MS'):
            flag = True
        return [name, bool(flag)]
    return st.builds(fix, st.sampled_from(names), st.booleans())


def system_spec(max_types=3, big=False, methods=('krylov',), min_types=1, allow_ms=True):
    def body(n, dr, kT):
        dias = st.lists(st.integers(0, 3), min_size=n, max_size=n).map(
            lambda m: [[1.0, 1.0, 1.5, 2.0][i] if dr in (0.1, 0.05, 0.25, 0.125) else [1.0, 1.0, 1.6, 2.0][i] for i in m])

        def with_dias(d):
            dmax = max(d)
            lengths = [L for L in ([256, 300, 512, 1024, 2048] if big else [256, 300, 512, 1024]) if L * dr >= 25 * dmax and L * dr <= 260]
            if not lengths:
                lengths = [int(math.ceil(25 * dmax / dr))]
            om_self = [_omega_self(x, big) for x in d]
            pots = st.lists(_potential(kT), min_size=n * (n + 1) // 2, max_size=n * (n + 1) // 2)
            return st.tuples(st.sampled_from(lengths), st.tuples(*om_self), pots,
                             # composition weights: mostly comparable, sometimes a component orders of magnitude more dilute than the others
                             st.lists(st.one_of(specs.fl(0.1, 1.0, 3), specs.fl(0.1, 1.0, 3), specs.fl(0.1, 1.0, 3), specs.logfloat(-5, -1, 3)), min_size=n, max_size=n), specs.logfloat(-3, -0.4, 3),
                             st.lists(st.tuples(st.integers(0, 13), st.booleans()), min_size=n * (n + 1) // 2, max_size=n * (n + 1) // 2),
                             st.sampled_from(list(methods)), st.booleans(),
                             st.one_of(st.none(), st.none(), st.tuples(st.integers(1, 12), st.integers(1, 12), st.sampled_from([1.0, 1.2]))),
                             st.lists(st.sampled_from([None, None, None, None, 0.8, 1.0, 1.2, 0.890899]), min_size=n * (n + 1) // 2, max_size=n * (n + 1) // 2),
                             st.sampled_from([False, False, True])
                             ).map(lambda t: assemble(n, dr, kT, d, *t, allow_ms=allow_ms))
        return dias.flatmap(with_dias)
    return st.tuples(st.integers(min_types, max_types), st.sampled_from([0.1, 0.1, 0.05, 0.2, 0.25, 0.125]),
                     st.one_of(st.just(1.0), specs.logfloat(-0.3, 0.7, 3))).flatmap(lambda t: body(*t))


def assemble(n, dr, kT, dias, length, om_self, pots, split, eta, clo_draw, method, intermol, diblock=None, sig_draw=None, shared=False, allow_ms=True):
    w = np.asarray(split, dtype=float)
    dias = list(dias)
    om_self = list(om_self)
    if diblock is not None and n >= 2:
        # types 0 and 1 are the two blocks of one chain: equal diameters, densities in the ratio N_A : N_B
        NA, NB, lf = diblock
        dias[1] = dias[0]
        tot = w[0] + w[1]
        w[0], w[1] = tot * NA / (NA + NB), tot * NB / (NA + NB)
        l = float('%.6g' % (lf * dias[0]))
        om_self[0] = ['Diblock', {'NA': NA, 'NB': NB, 'l': l, 'part': 'AA'}]
        om_self[1] = ['Diblock', {'NA': NA, 'NB': NB, 'l': l, 'part': 'BB'}]
    w = w / w.sum()
    # type names are arbitrary labels: not always the default letters in alphabetical order
    names = [NAMES, ['C', 'A', 'B', 'AB'], ['solvent', 'polymer', 'np', 'ion'], NAMES][(int(length) // 4 + n) % 4][:n]
    spec = {'types': list(names), 'kT': kT, 'domain': {'length': int(length), 'dr': dr}, 'dia': list(dias),
            'eta': [float('%.12g' % (eta * f)) for f in w], 'omega': {}, 'potential': {}, 'closure': {}, 'method': method}
    names = ['PY'] * 6 + ['MSA'] * 3 + ['HNC'] * 4 + ['MS']
    for idx, (i, j) in enumerate(pair_indices(n)):
        if i == j:
            spec['omega'][key(i, j)] = om_self[i]
        else:
            spec['omega'][key(i, j)] = ['InterMolecular' if intermol else 'NoIntra', {}]
            if diblock is not None and (i, j) == (0, 1):
                spec['omega'][key(i, j)] = ['Diblock', dict(om_self[0][1], part='AB')]
        spec['potential'][key(i, j)] = list(pots[idx])
        if sig_draw is not None and sig_draw[idx] is not None:
            # an explicitly given potential sigma (the closure's core still follows the diameters)
            spec['potential'][key(i, j)] = [pots[idx][0], pots[idx][1], float('%.6g' % (sig_draw[idx] * (dias[i] + dias[j]) / 2.0))]
    for idx, (i, j) in enumerate(pair_indices(n)):
        single = om_self[i][0] == 'SingleSite' and om_self[j][0] == 'SingleSite'
        c, flag = clo_draw[idx]
        name = names[c]
        if name == 'HNC' and not single:
            name = 'PY'
        if name == 'MS' and not allow_ms:
            name = 'PY'
        if name in ('MSA', 'MS'):
            flag = True
        spec['closure'][key(i, j)] = [name, bool(flag)]
    if shared:
        # the user creates ONE object per distinct potential / closure / omega and assigns it to every pair that uses it
        spec['assign'] = 'shared-objects'
    return spec


# ----------------------------------------------------------------------------- construction

def density_of(spec, scale=1.0):
    if 'rho' in spec:          # explicit number densities (C16 edits densities and diameters independently)
        return [r * scale for r in spec['rho']]
    return [6.0 * e * scale / (math.pi * d ** 3) for e, d in zip(spec['eta'], spec['dia'])]


def diblock_values(p, k):
    """block omegas of an FJC diblock (N_A + N_B sites, bond l) in pyPRISM's convention:
    omega_AA = (1/N_A) sum_{i,j in A} E^|i-j|,  omega_AB = (1/(N_A+N_B)) sum_{i in A, j in B} E^|i-j|"""
    NA, NB, l = int(p['NA']), int(p['NB']), p['l']
    E = np.sinc(k * l / math.pi)

    def intra(N):
        tot = np.zeros_like(k)
        pw = np.ones_like(k)
        for t in range(1, N):
            pw = pw * E
            tot += (N - t) * pw
        return 1.0 + 2.0 * tot / N
    if p['part'] == 'full':
        return intra(NA + NB)
    if p['part'] == 'AA':
        return intra(NA)
    if p['part'] == 'BB':
        return intra(NB)
    sa = np.zeros_like(k)
    pw = np.ones_like(k)
    for a in range(NA):
        sa += pw
        pw = pw * E
    sb = np.zeros_like(k)
    pw = np.ones_like(k)
    for b in range(1, NB + 1):
        pw = pw * E
        sb += pw
    return sa * sb / (NA + NB)


def grid_k(spec):
    L, dr = spec['domain']['length'], spec['domain']['dr']
    return np.arange(1, L + 1) * (math.pi / (dr * L))


def make_omega(desc, k=None):
    P = target()
    name, p = desc
    if name == 'Diblock':
        return P.omega.FromArray(diblock_values(p, k))
    cls = getattr(P.omega, name)
    if name == 'FromArray':
        return cls(np.asarray(p['values'], dtype=float))
    return cls(**p)


def pot_params(name, p, sigma):
    q = dict(p)
    if name == 'LennardJones' and 'rcut' not in q:
        f = q.pop('rcut_f', None)
        q['rcut'] = None if f is None else float('%.6g' % (f * sigma))
    return q


def make_potential(desc, sigma_eff):
    """desc = [name, params] or [name, params, explicit sigma]"""
    P = target()
    name, p = desc[0], desc[1]
    explicit = desc[2] if len(desc) > 2 else None
    q = pot_params(name, p, explicit if explicit is not None else sigma_eff)
    if explicit is not None:
        q['sigma'] = explicit
    # arguments that have their documented default value are left out (the defaults themselves are exercised)
    if name == 'LennardJones':
        if q.get('rcut') is None:
            q.pop('rcut', None)
        if not q.get('shift'):
            q.pop('shift', None)
    return getattr(P.potential, name)(**q)


def potential_sigma(spec, i, j):
    """contact distance the potential of pair (i,j) uses: explicit if given, else the mean diameter"""
    desc = spec['potential'][key(i, j)]
    if len(desc) > 2 and desc[2] is not None:
        return float(desc[2])
    return (spec['dia'][i] + spec['dia'][j]) / 2.0


CLOSURE_CLASS = {'PY': 'PercusYevick', 'HNC': 'HyperNettedChain', 'MSA': 'MeanSphericalApproximation', 'MS': 'MartynovSarkisov'}


def make_closure(desc):
    P = target()
    cls = getattr(P.closure, CLOSURE_CLASS[desc[0]])
    # the documented default (no hard-core flag) is exercised by leaving the argument out
    return cls(apply_hard_core=True) if desc[1] else cls()


def build_system(spec, scale=1.0, types=None):
    P = target()
    types = list(spec['types']) if types is None else types
    n = len(types)
    s = P.System(types, kT=spec['kT']) if spec['kT'] != 1.0 else P.System(types)     # kT=1.0 is the documented default
    s.domain = P.Domain(length=spec['domain']['length'], dr=spec['domain']['dr'])
    rho = density_of(spec, scale)
    for t, d, r in zip(types, spec['dia'], rho):
        s.diameter[t] = d
        s.density[t] = r
    if spec.get('assign') == 'shared-objects':
        # one object per distinct constructor call, assigned to every pair that uses it (with one block assignment when all pairs
        # use it): the tables store independent copies, so this is the same System as the pair-by-pair one
        for table, ctor in ((s.omega, lambda k_: (spec['omega'][k_], lambda: make_omega(spec['omega'][k_], grid_k(spec)))),
                            (s.potential, lambda k_: ([spec['potential'][k_][0], pot_params(spec['potential'][k_][0], spec['potential'][k_][1], potential_sigma(spec, *[int(v) for v in k_.split(',')]))] + list(spec['potential'][k_][2:]),
                                                      lambda: make_potential(spec['potential'][k_], (spec['dia'][int(k_.split(',')[0])] + spec['dia'][int(k_.split(',')[1])]) / 2.0))),
                            (s.closure, lambda k_: (spec['closure'][k_], lambda: make_closure(spec['closure'][k_])))):
            groups = {}
            for (i, j) in pair_indices(n):
                ident, make = ctor(key(i, j))
                groups.setdefault(json.dumps(ident, sort_keys=True, default=str), [make, []])[1].append((i, j))
            for make, members in groups.values():
                obj = make()
                if len(members) == n * (n + 1) // 2 and n > 1:
                    table[types, types] = obj
                else:
                    for (i, j) in members:
                        table[types[i], types[j]] = obj
        return s
    for (i, j) in pair_indices(n):
        k = key(i, j)
        sig = (spec['dia'][i] + spec['dia'][j]) / 2.0
        s.omega[types[i], types[j]] = make_omega(spec['omega'][k], grid_k(spec))
        s.potential[types[i], types[j]] = make_potential(spec['potential'][k], sig)
        s.closure[types[i], types[j]] = make_closure(spec['closure'][k])
    return s


def quiet(f, *a, **kw):
    with warnings.catch_warnings():
        warnings.simplefilter('ignore')
        with np.errstate(all='ignore'):
            return f(*a, **kw)


def solver_options(method, fatol=None, maxiter=60):
    if method in ('krylov', 'anderson', 'broyden1', 'broyden2', 'diagbroyden', 'linearmixing', 'excitingmixing'):
        o = {'disp': False, 'maxiter': maxiter}
        if fatol is not None:
            o['fatol'] = fatol
        return o
    if method == 'df-sane':
        o = {'disp': False, 'maxfev': 40 * maxiter}
        if fatol is not None:
            o['fatol'] = fatol
        return o
    if method == 'hybr':
        return {'maxfev': 400 * maxiter}
    if method == 'lm':
        return {'maxiter': 400 * maxiter}
    return {}


LADDER = (1.0 / 64, 1.0 / 16, 1.0 / 4, 1.0 / 2, 1.0)


CALL_STYLES = ('plain', 'strided-guess', 'readonly-guess', 'result-x-as-guess', 'shared-options', 'default-method', 'resolve-same-object', 'default-guess')


def solve_ladder(spec, ladder=LADDER, fatol=None, maxiter=60, perturb=None, reuse_system=False, call='plain', on_system=None):
    """density continuation; yields (scale, prism, result) for every rung (result.success may be False).
    reuse_system: one System object is built once and only its densities are edited from rung to rung (a parameter sweep)
    call: the way solve() is called (all documented / equivalent):
      strided-guess        the guess is a strided view of a longer buffer
      readonly-guess       the guess array is write-protected (solve must not need to write into it)
      result-x-as-guess    the previous rung's result.x object itself (not a copy) is the next guess
      shared-options       ONE options dict object is handed to every solve of the ladder
      default-method       method= is left out when it is the default 'krylov'
      default-guess        the first rung leaves guess= out (documented default: all zeros)
      resolve-same-object  after a converged rung solve() is called again on the same PRISM object from its own solution;
                           the second result is yielded as well"""
    guess = None
    method = spec.get('method', 'krylov')
    shared = None
    shared_opts = solver_options(method, fatol, maxiter)
    for f in ladder:
        if reuse_system:
            if shared is None:
                shared = build_system(spec, f)
            else:
                for t, r_ in zip(shared.types, density_of(spec, f)):
                    shared.density[t] = r_
            s = shared
        else:
            s = build_system(spec, f)
        if on_system is not None:
            on_system(s)
        pr = quiet(s.createPRISM)
        n = len(spec['types']) ** 2 * spec['domain']['length']
        g = np.zeros(n) if guess is None else guess
        if perturb is not None and guess is None:
            g = g + perturb
        if call == 'strided-guess':
            buf = np.full(2 * n, 7.5)
            buf[0::2] = g
            g = buf[0::2]
        elif call == 'readonly-guess':
            g = np.array(g)
            g.setflags(write=False)
        opts = shared_opts if call == 'shared-options' else solver_options(method, fatol, maxiter)
        kw = dict(guess=g, options=opts)
        if call == 'default-guess' and guess is None and perturb is None:
            del kw['guess']
        if not (call == 'default-method' and method == 'krylov'):
            kw['method'] = method

        def run(kw):
            try:
                return quiet(pr.solve, **kw), False
            except Exception as exc:   # solver blew up numerically (overflow -> nan -> LinAlgError inside scipy): not converged
                if isinstance(exc, (ArithmeticError, ValueError)) or type(exc).__name__ in ('LinAlgError', 'NoConvergence'):
                    return None, True
                raise
        res, blew = run(kw)
        if blew:
            yield f, pr, None
            return
        yield f, pr, res
        if not res.success or not np.all(np.isfinite(res.x)):
            return
        if call == 'resolve-same-object':
            res2, blew = run(dict(kw, guess=res.x))
            if not blew and res2 is not None and res2.success and np.all(np.isfinite(res2.x)):
                yield f, pr, res2
                res = res2
        guess = res.x if call == 'result-x-as-guess' else np.array(res.x)


# ----------------------------------------------------------------------------- independent reference inputs

def omega_ref(desc, k):
    """documented omega(k) by explicit pair sums (never the shipped closed forms)"""
    name, p = desc
    if name == 'SingleSite':
        return np.ones_like(k)
    if name in ('NoIntra', 'InterMolecular'):
        return np.zeros_like(k)
    if name == 'FromArray':
        return np.asarray(p['values'], dtype=float)
    if name == 'Diblock':
        return diblock_values(p, k)        # a user-supplied table: the reference is the table itself
    N = int(p['length'])
    if name == 'Gaussian':
        E = np.exp(-k * k * p['sigma'] ** 2 / 6.0)
    elif name in ('FreelyJointedChain', 'FJC'):
        E = np.sinc(k * p['l'] / math.pi)
    elif name == 'GaussianRing':
        out = np.ones_like(k)
        for t in range(1, N):
            out += (N - t) * (2.0 / N) * np.exp(-k * k * p['sigma'] ** 2 * t * (N - t) / (6.0 * N))
        return out
    else:
        return None            # no independent formula (Koyama, NFJC): the caller falls back to the object's own value
    tot = np.zeros_like(k)
    pw = np.ones_like(k)
    for t in range(1, N):
        pw = pw * E
        tot += (N - t) * pw
    return 1.0 + 2.0 * tot / N


def omega_tol(desc, k):
    """rounding inherent in the documented closed form (see C11), relative to which Omega_ref may differ from the shipped value"""
    name, p = desc
    if name in ('Gaussian', 'FreelyJointedChain', 'FJC'):
        N = int(p['length'])
        E = np.exp(-k * k * p['sigma'] ** 2 / 6.0) if name == 'Gaussian' else np.sinc(k * p['l'] / math.pi)
        with np.errstate(all='ignore'):
            d = np.abs(1.0 - E)
            return 64 * O.EPS * (N * N + 4.0 / d ** 2 + N / d)
    if name == 'GaussianRing':
        return 64 * O.EPS * int(p['length']) ** 2 * np.ones_like(k)
    return np.zeros_like(k)


def reference(spec, scale=1.0):
    """everything the PRISM equations need, from the spec alone"""
    n = len(spec['types'])
    L, dr = spec['domain']['length'], spec['domain']['dr']
    r = np.arange(1, L + 1) * dr
    dk = math.pi / (dr * L)
    k = np.arange(1, L + 1) * dk
    rho = density_of(spec, scale)
    site = np.empty((n, n))
    pair = np.empty((n, n))
    sigma = np.empty((n, n))
    for i in range(n):
        for j in range(n):
            site[i, j] = rho[i] if i == j else rho[i] + rho[j]
            pair[i, j] = rho[i] * rho[j]
            sigma[i, j] = (spec['dia'][i] + spec['dia'][j]) / 2.0
    Om = np.zeros((L, n, n))
    Om_tol = np.zeros((L, n, n))
    unknown = []
    u = np.zeros((L, n, n))
    judged = np.ones((L, n, n), dtype=bool)
    for (i, j) in pair_indices(n):
        kk = key(i, j)
        w = omega_ref(spec['omega'][kk], k)
        if w is None:
            unknown.append((i, j))
            w = np.zeros_like(k)
        Om[:, i, j] = Om[:, j, i] = w * site[i, j]
        Om_tol[:, i, j] = Om_tol[:, j, i] = omega_tol(spec['omega'][kk], k) * site[i, j]
        name, p = spec['potential'][kk][0], spec['potential'][kk][1]
        ps = potential_sigma(spec, i, j)
        q = pot_params(name, p, ps)
        q.setdefault('high_value', 1e6)
        val, jd = O.potential(name, q, r, ps)
        u[:, i, j] = u[:, j, i] = val / spec['kT']
        judged[:, i, j] = judged[:, j, i] = jd
    return {'n': n, 'r': r, 'k': k, 'dr': dr, 'dk': dk, 'rho': rho, 'site': site, 'pair': pair, 'sigma': sigma,
            'Omega': Om, 'Omega_tol': Om_tol, 'omega_unknown': unknown, 'u': u, 'u_judged': judged}


def to_fourier(ref, f):
    """own forward 3-D radial transform on the reference grid (scipy.fft, not Domain)"""
    from scipy.fft import dst
    return dst(2.0 * math.pi * ref['r'] * ref['dr'] * f, type=2) / ref['k']


def to_real(ref, F):
    from scipy.fft import dst
    return dst(ref['k'] * ref['dk'] / (4.0 * math.pi ** 2) * F, type=3) / ref['r']


def closure_value(name, flag, r, gamma, u, sigma):
    """published closure relation with the hard-core rule; returns (c, judged mask, slope bound function)"""
    val, _ = O.closure_terms(name, gamma, u)
    if flag:
        ins = r <= sigma
        outs = r >= sigma + O.BAND
        c = np.where(ins, -1.0 - gamma, val)
        return c, ins | outs, ins
    return val, np.ones(len(r), dtype=bool), np.zeros(len(r), dtype=bool)
