"""C06 -- post-processing is history independent and never corrupts the solved object."""
import copy
import itertools

import numpy as np
from hypothesis import strategies as st

from . import systems as S
from .core import History, Sub, Outcome, target, canon

PID = 'C06'
SHARDS = {'quick': 8, 'thorough': 16}
RULE = ('One solved 2- or 3-component PRISM object (C01 generator without MS, fatol 1e-10, density ladder) per history. A Hypothesis '
        'RuleBasedStateMachine applies up to 20 (thorough 30) operations from {pair_correlation, structure_factor(normalize=T|F), pmf, '
        'second_virial(extrapolate=T|F), chi(T|F), spinodal_condition(T|F), solvation_potential(HNC|PY), user transform of totalCorr / '
        'directCorr / omega to the other space, solve(guess=own x) while omega is in Fourier space, a calculate call (after an optional user transform) on a SECOND PRISM object created from the same System and solved from the same root}. After every operation the returned '
        'value is compared with the value the same call returns on a fresh, identically solved object on which nothing else was called '
        '(1e-9 of the function scale before any re-solve, 1e-6 after one; pmf where g > 1e-3), no exception is tolerated, and omega / '
        'totalCorr / directCorr brought to a common space on copies must equal the post-solve snapshot, and the last four returned objects must still hold the values '
        'they had when they were returned. After every solve, cost(x) of '
        'a fresh object at the returned x must reproduce the stored arrays bit for bit. Sub-check "pairs" enumerates every ordered '
        'pair of operations on three fixed systems. Non-trivial = history with >= 2 distinct functions and a repeat, a user transform '
        'or a re-solve (history) / every enumerated ordered pair (pairs); distinct = hash of (system, trace).')
ASSUMPTIONS = ['"fresh, identically solved object" is realised as a deep copy of a second, independent solve taken before any calculate call; '
               'at the start of every history the two independent solves are compared bit for bit (solves are deterministic)',
               'a re-solve from the own root moves x by residual level: comparisons after a re-solve use 1e-6 of the scale',
               'systems on which the density ladder does not converge at fatol=1e-10 are counted and not explored']

CALLS = [('pair_correlation', {}), ('structure_factor', {'normalize': True}), ('structure_factor', {'normalize': False}), ('pmf', {}),
         ('second_virial', {'extrapolate': True}), ('second_virial', {'extrapolate': False}),
         ('chi', {'extrapolate': True}), ('chi', {'extrapolate': False}),
         ('spinodal_condition', {'extrapolate': True}), ('spinodal_condition', {'extrapolate': False}),
         ('solvation_potential', {'closure': 'HNC'}), ('solvation_potential', {'closure': 'PY'})]
ARRAYS = ['totalCorr', 'directCorr', 'omega']


def solve_fresh(spec, keep=None):
    """ladder solve to full density; returns the PRISM object or None (keep: list that receives the System objects used)"""
    last = None
    for scale, pr, res in S.solve_ladder(spec, fatol=1e-10, maxiter=100, on_system=(keep.append if keep is not None else None)):
        if res is None or not res.success:
            return None
        last = (scale, pr)
    if last is None or last[0] != 1.0:
        return None
    return last[1]


def as_arrays(res, types):
    """calculate result -> dict name -> ndarray (MatrixArray data or PairTable entries)"""
    if hasattr(res, 'data') and hasattr(res, 'space'):
        return {'data': np.array(res.data)}
    out = {}
    for a in types:
        for b in types:
            v = res[a, b]
            if v is not None:
                out['%s|%s' % (a, b)] = np.array(v, dtype=float)
    return out


def common_space(pr, which):
    """copy of an object's array in Fourier space (omega, directCorr) / Real space (totalCorr), whatever space it is in now"""
    P = target()
    ma = getattr(pr, which)
    data = np.array(ma.data)
    want = P.Space.Real if which == 'totalCorr' else P.Space.Fourier
    if ma.space == want:
        return data
    dom = pr.sys.domain
    f = dom.to_real if want == P.Space.Real else dom.to_fourier
    out = np.empty_like(data)
    for i in range(data.shape[1]):
        for j in range(data.shape[2]):
            out[:, i, j] = f(data[:, i, j])
    return out


class State(object):
    pass


def start(spec, out, sig):
    st_ = State()
    systems = []
    pr = solve_fresh(spec, keep=systems)
    st_.system = systems[-1] if systems else None     # the caller's System the primary object was created from
    st_.sibling = None
    if pr is None:
        out.skipped = 'not-converged'
        return None
    pr2 = solve_fresh(spec)
    if pr2 is None or not (np.array_equal(pr.totalCorr.data, pr2.totalCorr.data) and np.array_equal(pr.directCorr.data, pr2.directCorr.data)
                           and np.array_equal(pr.minimize_result.x, pr2.minimize_result.x)):
        out.fail(sig + 'two-fresh-solves-differ', 'two independent identical solves do not give bit-identical objects')
        return None
    st_.spec = spec
    st_.pr = pr
    st_.fresh = pr2                   # never touched: deep-copied for every reference value
    st_.ref = {}
    st_.types = list(pr.sys.types)
    st_.snap = {w: common_space(pr2, w) for w in ARRAYS}
    st_.resolved = 0
    st_.called = []
    st_.ntransform = 0
    st_.omega_touched = False
    check_stored_are_root(st_, out, sig)
    return st_


def check_stored_are_root(st_, out, sig):
    """after solve the stored arrays are exactly those of the returned root"""
    pr = st_.pr
    probe = S.quiet(S.build_system(st_.spec).createPRISM)
    S.quiet(probe.cost, np.array(pr.minimize_result.x))
    P = target()
    h = np.array(probe.totalCorr.data)
    dom = probe.sys.domain
    if probe.totalCorr.space == P.Space.Fourier:
        S.quiet(dom.MatrixArray_to_real, probe.totalCorr)
    if getattr(st_, 'omega_touched', False):
        # a user round trip of omega changed it by rounding: the object is no longer bit-identical to a fresh one
        def same(a, b):
            return a.shape == b.shape and np.max(np.abs(a - b)) <= 1e-9 * (float(np.max(np.abs(b))) + 1e-300)
    else:
        same = np.array_equal
    ok = (pr.totalCorr.space == P.Space.Real and same(probe.totalCorr.data, pr.totalCorr.data)
          and pr.directCorr.space == probe.directCorr.space and same(probe.directCorr.data, pr.directCorr.data))
    if not ok:
        out.fail(sig + 'stored-arrays-not-those-of-returned-root', 'after solve the stored totalCorr/directCorr differ from cost(minimize_result.x) on a fresh object')


def reference(st_, name, kw):
    key = name + canon(kw)
    if key not in st_.ref:
        P = target()
        obj = copy.deepcopy(st_.fresh)
        st_.ref[key] = as_arrays(S.quiet(getattr(P.calculate, name), obj, **kw), st_.types)
    return st_.ref[key]


def natural_scale(st_, name):
    """size of the terms a function adds up (a result that is pure cancellation noise, e.g. chi of two identical species, must not
    be compared relative to itself)"""
    key = 'scale:' + name
    if key not in st_.ref:
        fr = st_.fresh
        c3 = float(np.max(np.abs(common_space(fr, 'directCorr')[:3])))
        if name == 'chi':
            d = [fr.sys.diameter[t] for t in st_.types]
            rfac = (max(d) / min(d)) ** 3
            v = float(fr.sys.density.total) * c3 * rfac
        elif name == 'spinodal_condition':
            v = 1.0
        elif name == 'second_virial':
            P = target()
            h = np.array(fr.totalCorr.data)
            hk = h if fr.totalCorr.space == P.Space.Fourier else np.stack([[fr.sys.domain.to_fourier(h[:, i, j])[:3] for j in range(h.shape[2])]
                                                                            for i in range(h.shape[1])])
            v = 0.5 * float(np.max(np.abs(hk[..., :3] if fr.totalCorr.space != P.Space.Fourier else hk[:3])))
        else:
            v = 0.0
        st_.ref[key] = v
    return st_.ref[key]


def do_call(st_, name, kw, out, sig):
    P = target()
    ref = reference(st_, name, kw)
    spaces = tuple(str(getattr(st_.pr, w).space).split('.')[-1] for w in ARRAYS)
    try:
        # arguments with their documented default value are left out on every second call (both spellings must behave alike)
        kw_call = kw if len(st_.called) % 2 else {k_: v for k_, v in kw.items() if (k_, v) not in (('normalize', True), ('extrapolate', True), ('closure', 'HNC'))}
        raw = S.quiet(getattr(P.calculate, name), st_.pr, **kw_call)
        got = as_arrays(raw, st_.types)
        # keep the returned object: a value handed to the user must not change when other functions are called later
        kept = getattr(st_, 'kept', None)
        if kept is None:
            kept = st_.kept = []
        kept.append((name + canon(kw), raw, {k_: v.copy() for k_, v in got.items()}))
        del kept[:-4]
    except Exception as exc:   # noqa -- "no call raises merely because an array is in the other space"
        out.fail(sig + name + '/raises-' + type(exc).__name__, '%s(%s) raised %s: %s with (totalCorr, directCorr, omega) in spaces %s after history %s' % (
            name, kw, type(exc).__name__, exc, spaces, st_.called[-6:]))
        st_.called.append(name)
        return
    tol = 1e-6 if st_.resolved else 1e-9
    if name == 'pmf':
        g = reference(st_, 'pair_correlation', {})['data']
        mask = g > 1e-3
    else:
        mask = None
    floor = natural_scale(st_, name)
    for k, r in ref.items():
        if k not in got or got[k].shape != r.shape:
            out.fail(sig + name + '/result-shape', '%s(%s): entry %s missing or of different shape than on a fresh object' % (name, kw, k))
            break
        a, b = got[k], r
        m = np.ones(b.shape, dtype=bool) if mask is None else mask
        with np.errstate(all='ignore'):
            fin = np.isfinite(b) & m
            scale = max(float(np.max(np.abs(b[fin]))) if np.any(fin) else 0.0, floor) + 1e-300
            bad = fin & ~(np.abs(a - b) <= tol * scale)
        if np.any(bad):
            idx = tuple(int(v) for v in np.argwhere(bad)[0])
            out.fail(sig + name + '/depends-on-history', '%s(%s)[%s] = %r here but %r on a fresh identically solved object (scale %.3g); spaces before the call %s; history %s' % (
                name, kw, k, float(a[idx]), float(b[idx]), scale, spaces, st_.called[-8:]))
            break
    st_.called.append(name)


def do_transform(st_, which, out, sig):
    P = target()
    ma = getattr(st_.pr, which)
    dom = st_.pr.sys.domain
    if ma.space == P.Space.Real:
        S.quiet(dom.MatrixArray_to_fourier, ma)
    else:
        S.quiet(dom.MatrixArray_to_real, ma)
    st_.ntransform += 1
    if which == 'omega':
        st_.omega_touched = True
    st_.called.append('transform:' + which)


def can_resolve(st_):
    P = target()
    return st_.pr.omega.space == P.Space.Fourier


def do_resolve(st_, out, sig):
    pr = st_.pr
    x = np.array(pr.minimize_result.x)
    try:
        res = S.quiet(pr.solve, guess=x, method='krylov', options=S.solver_options('krylov', 1e-10, 100))
    except Exception as exc:   # noqa
        out.fail(sig + 'resolve/raises-' + type(exc).__name__, 'solve(guess=own x) raised %s: %s after history %s' % (type(exc).__name__, exc, st_.called[-6:]))
        return
    st_.called.append('resolve')
    if not res.success:
        out.fail(sig + 'resolve/fails', 'solve(guess=own solution) reports failure after history %s' % st_.called[-6:])
        return
    st_.resolved += 1
    xs = float(np.max(np.abs(x))) + 1e-6
    if np.max(np.abs(np.asarray(res.x) - x)) > 1e-6 * xs:
        out.fail(sig + 'resolve/moves-away', 'solve(guess=own solution) moved x by %.3g (scale %.3g) after history %s' % (
            float(np.max(np.abs(np.asarray(res.x) - x))), xs, st_.called[-6:]))
    check_stored_are_root(st_, out, sig)


def do_sibling(st_, op, out, sig):
    """a SECOND PRISM object created from the same System, solved from the primary's solution and post-processed: objects created
    from one System are independent, so nothing about the primary object (its arrays, the values it returned, the values it will
    return -- all checked by the invariant and by later calls) may change"""
    P = target()
    if st_.sibling is None:
        sib = S.quiet(st_.system.createPRISM)
        try:
            res = S.quiet(sib.solve, guess=np.array(st_.fresh.minimize_result.x), method='krylov', options=S.solver_options('krylov', 1e-10, 100))
        except Exception as exc:   # noqa
            out.fail(sig + 'sibling/raises-' + type(exc).__name__, 'solve of a second PRISM object of the same System raised %s: %s' % (type(exc).__name__, exc))
            return
        if not res.success:
            st_.called.append('sibling:not-converged')
            return
        st_.sibling = sib
    sib = st_.sibling
    if op.get('transform', 3) < 3:
        ma = getattr(sib, ARRAYS[op['transform']])
        S.quiet(sib.sys.domain.MatrixArray_to_fourier if ma.space == P.Space.Real else sib.sys.domain.MatrixArray_to_real, ma)
    name, kw = CALLS[op['which'] % len(CALLS)]
    ref = reference(st_, name, kw)
    try:
        got = as_arrays(S.quiet(getattr(P.calculate, name), sib, **kw), st_.types)
    except Exception as exc:   # noqa
        out.fail(sig + name + '/raises-' + type(exc).__name__, '%s(%s) on a second PRISM object of the same System raised %s: %s' % (name, kw, type(exc).__name__, exc))
        return
    st_.called.append('sibling:' + name)
    st_.nsibling = getattr(st_, 'nsibling', 0) + 1
    floor = natural_scale(st_, name)
    mask = (reference(st_, 'pair_correlation', {})['data'] > 1e-3) if name == 'pmf' else None
    for k, r in ref.items():
        if k not in got or got[k].shape != r.shape:
            out.fail(sig + name + '/result-shape', '%s(%s) on a second PRISM object: entry %s missing or of different shape' % (name, kw, k))
            return
        m = np.ones(r.shape, dtype=bool) if mask is None else mask
        with np.errstate(all='ignore'):
            fin = np.isfinite(r) & m
            scale = max(float(np.max(np.abs(r[fin]))) if np.any(fin) else 0.0, floor) + 1e-300
            bad = fin & ~(np.abs(got[k] - r) <= 1e-6 * scale)
        if np.any(bad):
            idx = tuple(int(v) for v in np.argwhere(bad)[0])
            out.fail(sig + name + '/second-object-differs', '%s(%s)[%s] = %r on a second PRISM object of the same System (solved from the same root) but %r on a fresh object; history %s' % (
                name, kw, k, float(got[k][idx]), float(r[idx]), st_.called[-8:]))
            return


def invariant(st_, out, sig):
    for label, raw, snap in getattr(st_, 'kept', []):
        now = as_arrays(raw, st_.types)
        for k_, v in snap.items():
            if k_ not in now or now[k_].shape != v.shape or not np.array_equal(now[k_], v, equal_nan=True):
                out.fail(sig + 'earlier-result-changed-by-later-call', 'a value returned earlier by %s changed after later operations (history %s)' % (label, st_.called[-6:]))
                return
    tol = 1e-6 if st_.resolved else 1e-9
    for w in ARRAYS:
        if w == 'omega' or not st_.resolved or True:
            now = common_space(st_.pr, w)
            ref = st_.snap[w]
            scale = float(np.max(np.abs(ref))) + 1e-300
            t = 1e-9 if w == 'omega' else tol
            if now.shape != ref.shape or np.max(np.abs(now - ref)) > t * scale:
                out.fail(sig + 'object-corrupted/' + w, 'PRISM.%s (brought to its post-solve space on a copy) differs from the post-solve snapshot by %.3g (scale %.3g) after history %s' % (
                    w, float(np.max(np.abs(now - ref))) if now.shape == ref.shape else float('nan'), scale, st_.called[-8:]))
                return


def apply_op(st_, op, out, sig):
    kind = op['op']
    if kind == 'call':
        name, kw = CALLS[op['which'] % len(CALLS)]
        do_call(st_, name, kw, out, sig)
    elif kind == 'transform':
        do_transform(st_, ARRAYS[op['which'] % 3], out, sig)
    elif kind == 'resolve':
        if can_resolve(st_):
            do_resolve(st_, out, sig)
    elif kind == 'sibling':
        if st_.system is not None:
            do_sibling(st_, op, out, sig)
    if not out.violations:
        invariant(st_, out, sig)


def c06_system(tier):
    return S.system_spec(min_types=2, max_types=3, big=False, allow_ms=False)


class Histories(History):
    name = 'history'
    doc = 'stateful machine over one solved object: calculate calls with every flag, user transforms, re-solves; reference = fresh identically solved object'
    budget = {'quick': 96, 'thorough': 4800}
    steps = {'quick': 20, 'thorough': 30}
    shrink = {'quick': False, 'thorough': True}

    def params_strategy(self, tier):
        return c06_system(tier)

    def ops(self, tier):
        return {'call': {'which': st.integers(0, len(CALLS) - 1)}, 'transform': {'which': st.integers(0, 2)}, 'resolve': {},
                'sibling': {'which': st.integers(0, len(CALLS) - 1), 'transform': st.integers(0, 3)}}

    def init(self, params, out):
        return start(params, out, PID + '/')

    def precondition(self, state, opname):
        if state is None:
            return False
        if opname == 'resolve':
            return can_resolve(state) and state.resolved < 3
        return True

    def apply(self, state, op, out):
        apply_op(state, op, out, PID + '/')

    def check(self, spec):
        out = Outcome()
        state = self.init(spec['params'], out)
        if state is None:
            return out
        done = []
        for op in spec['trace']:
            if not self.precondition(state, op['op']):
                continue
            self.apply(state, op, out)
            done.append(op)
            if out.violations:
                break
        self.finish(state, done, out)
        return out

    def finish(self, state, trace, out):
        if state is None:
            return
        fns = [c for c in state.called if not c.startswith('transform') and not c.startswith('sibling') and c != 'resolve']
        repeat = len(fns) != len(set(fns))
        out.nontrivial = len(set(fns)) >= 2 and (repeat or state.ntransform > 0 or state.resolved > 0 or getattr(state, 'nsibling', 0) > 0)
        out.label('rank=%d' % len(state.types))
        if repeat:
            out.label('repeat')
        if state.ntransform:
            out.label('user-transform')
        if state.resolved:
            out.label('resolve')
        if getattr(state, 'nsibling', 0):
            out.label('second-object-post-processed')
        for c in set(fns):
            out.label('fn=' + c)


FIXED = [
    {'types': ['A', 'B'], 'kT': 1.0, 'domain': {'length': 512, 'dr': 0.1}, 'dia': [1.0, 1.0], 'eta': [0.15, 0.1], 'method': 'krylov',
     'omega': {'0,0': ['FreelyJointedChain', {'length': 8, 'l': 1.0}], '0,1': ['NoIntra', {}], '1,1': ['SingleSite', {}]},
     'potential': {'0,0': ['HardSphere', {}], '0,1': ['Exponential', {'epsilon': 0.3, 'alpha': 0.5}], '1,1': ['HardSphere', {}]},
     'closure': {'0,0': ['PY', False], '0,1': ['PY', False], '1,1': ['PY', False]}},
    {'types': ['A', 'B', 'C'], 'kT': 1.3, 'domain': {'length': 512, 'dr': 0.1}, 'dia': [1.0, 1.5, 2.0], 'eta': [0.08, 0.06, 0.1], 'method': 'krylov',
     'omega': {'0,0': ['Gaussian', {'length': 12, 'sigma': 1.0}], '0,1': ['NoIntra', {}], '0,2': ['NoIntra', {}], '1,1': ['SingleSite', {}],
               '1,2': ['InterMolecular', {}], '2,2': ['SingleSite', {}]},
     'potential': {'0,0': ['HardSphere', {}], '0,1': ['HardCoreLennardJones', {'epsilon': 0.2}], '0,2': ['HardSphere', {}],
                   '1,1': ['HardSphere', {}], '1,2': ['Exponential', {'epsilon': -0.3, 'alpha': 0.5}], '2,2': ['HardSphere', {}]},
     'closure': {'0,0': ['PY', True], '0,1': ['PY', False], '0,2': ['MSA', True], '1,1': ['HNC', False], '1,2': ['HNC', False], '2,2': ['PY', False]}},
    {'types': ['A', 'B', 'C'], 'kT': 1.0, 'domain': {'length': 300, 'dr': 0.125}, 'dia': [1.0, 1.0, 1.5], 'eta': [0.06, 0.06, 0.1], 'method': 'krylov',
     'omega': {'0,0': ['Diblock', {'NA': 6, 'NB': 6, 'l': 1.0, 'part': 'AA'}], '0,1': ['Diblock', {'NA': 6, 'NB': 6, 'l': 1.0, 'part': 'AB'}],
               '0,2': ['NoIntra', {}], '1,1': ['Diblock', {'NA': 6, 'NB': 6, 'l': 1.0, 'part': 'BB'}], '1,2': ['NoIntra', {}], '2,2': ['SingleSite', {}]},
     'potential': {'0,0': ['HardSphere', {}], '0,1': ['Exponential', {'epsilon': -0.2, 'alpha': 0.5}], '0,2': ['HardSphere', {}],
                   '1,1': ['HardSphere', {}], '1,2': ['WeeksChandlerAndersen', {'epsilon': 0.5}], '2,2': ['HardSphere', {}]},
     'closure': {'0,0': ['PY', False], '0,1': ['PY', False], '0,2': ['PY', False], '1,1': ['PY', False], '1,2': ['PY', True], '2,2': ['PY', False]}},
]
ALPHABET = ([{'op': 'call', 'which': i} for i in range(len(CALLS))] + [{'op': 'transform', 'which': i} for i in range(3)] + [{'op': 'resolve'}]
            + [{'op': 'sibling', 'which': 1, 'transform': 3}, {'op': 'sibling', 'which': 0, 'transform': 0}])


class Pairs(Sub):
    name = 'pairs'
    kind = 'enum'
    doc = 'exhaustive: every ordered pair of operations (12 call variants, 3 user transforms, re-solve, 2 second-object post-processing steps) on three fixed 2-/3-component systems'
    budget = {'quick': 0, 'thorough': 0}

    def __init__(self, hist):
        self.hist = hist
        self.cache = {}

    def enumerate(self, tier):
        for i, spec in enumerate(FIXED):
            for a, b in itertools.product(ALPHABET, repeat=2):
                yield {'params': spec, 'trace': [a, b], 'fixed': i}
            if tier == 'thorough':
                for a, b, c in itertools.product(ALPHABET, repeat=3):
                    if a['op'] == 'call' and b['op'] == 'call' and c['op'] == 'call':
                        continue     # triples are only interesting with a transform / re-solve in them
                    yield {'params': spec, 'trace': [a, b, c], 'fixed': i}

    def check(self, spec):
        out = Outcome()
        sig = PID + '/'
        i = spec.get('fixed', canon(spec['params']))
        if i not in self.cache:
            tmp = Outcome()
            self.cache[i] = (start(spec['params'], tmp, sig), tmp)
        base, tmp = self.cache[i]
        out.violations.extend(tmp.violations)
        if base is None:
            out.skipped = tmp.skipped or 'not-converged'
            return out
        st_ = State()
        st_.__dict__.update(base.__dict__)
        st_.pr = copy.deepcopy(base.fresh)
        st_.resolved, st_.called, st_.ntransform, st_.omega_touched, st_.kept, st_.sibling, st_.nsibling = 0, [], 0, False, [], None, 0
        for op in spec['trace']:
            if op['op'] == 'resolve' and not can_resolve(st_):
                continue
            apply_op(st_, op, out, sig)
            if out.violations:
                break
        out.nontrivial = True
        out.label('fixed-system-%s' % i)
        return out


_h = Histories()
SUBS = [_h, Pairs(_h)]
