"""Independent reference formulas.  Imports numpy/scipy only -- never pyPRISM."""
import math

import numpy as np

EPS = np.finfo(float).eps
BAND = 1e-6      # the tolerance System.check uses to call sigma 'on the grid'


# ----------------------------------------------------------------- closures
def closure_terms(name, gamma, u):
    """(value, magnitude of the terms that are added/subtracted) of the published closure relation c(gamma,u)"""
    with np.errstate(all='ignore'):
        if name == 'PY':
            e = np.exp(-u)
            return (e - 1.0) * (1.0 + gamma), (np.abs(e) + 1.0) * (1.0 + np.abs(gamma))
        if name == 'HNC':
            e = np.exp(gamma - u)
            return e - 1.0 - gamma, np.abs(e) + 1.0 + np.abs(gamma)
        if name == 'MSA':
            return -u, np.abs(u)
        if name == 'MS-A':      # Martynov & Sarkisov 1983: bridge B = sqrt(1+2 gamma) - gamma - 1
            e = np.exp(np.sqrt(1.0 + 2.0 * gamma) - 1.0 - u)
            return e - 1.0 - gamma, np.abs(e) + 1.0 + np.abs(gamma)
        if name == 'MS-B':      # form used in the PRISM literature: argument gamma - u
            e = np.exp(np.sqrt(1.0 + 2.0 * (gamma - u)) - 1.0)
            return e - 1.0 - gamma, np.abs(e) + 1.0 + np.abs(gamma)
        if name == 'MS-shipped-wrong':   # what the pinned tree evaluates: sqrt(gamma-u+1/2) -- a factor sqrt(2) is missing
            e = np.exp(np.sqrt(gamma - u + 0.5) - 1.0)
            return e - 1.0 - gamma, np.abs(e) + 1.0 + np.abs(gamma)
    raise ValueError(name)


def closure_slope(name, g0, g1, u):
    """sup over gamma between g0 and g1 of |dc/dgamma| for the closure relation (used to turn a residual into a bound)"""
    with np.errstate(all='ignore'):
        if name == 'PY':
            return np.abs(np.exp(-u) - 1.0)
        if name == 'HNC':
            return np.maximum(np.abs(np.exp(g0 - u) - 1.0), np.abs(np.exp(g1 - u) - 1.0))
        if name == 'MSA':
            return np.zeros_like(u)
    raise ValueError(name)


def same(a, b, mag, rel=1e-12):
    """elementwise: equal up to rel*magnitude, with inf==inf and nan==nan"""
    a = np.asarray(a, dtype=float)
    b = np.asarray(b, dtype=float)
    with np.errstate(all='ignore'):
        fin = np.isfinite(a) & np.isfinite(b)
        ok = np.where(fin, np.abs(a - b) <= rel * np.maximum(mag, 1e-300), False)
        ok |= (np.isnan(a) & np.isnan(b))
        ok |= (np.isinf(a) & np.isinf(b) & (np.sign(a) == np.sign(b)))
        # a finite result next to an overflowing magnitude is not comparable
        ok |= ~np.isfinite(mag)
    return ok


# --------------------------------------------------------------- potentials
def inside(r, sigma):
    return r <= sigma


def outside(r, sigma):
    return r >= sigma + BAND


def potential(name, p, r, sigma):
    """documented u(r); returns (values, judged-mask).  Points in the open band (sigma, sigma+1e-6) are not judged
    here (the contact rule is a separate sub-check)."""
    r = np.asarray(r, dtype=float)
    ins, outs = inside(r, sigma), outside(r, sigma)
    judged = ins | outs
    with np.errstate(all='ignore'):
        if name == 'HardSphere':
            return np.where(ins, p.get('high_value', 1e6), 0.0), judged
        if name == 'Exponential':
            tail = -p['epsilon'] * np.exp(-(r - sigma) / p['alpha'])
            return np.where(ins, p.get('high_value', 1e6), tail), judged
        if name == 'HardCoreLennardJones':
            x = (sigma / r) ** 6
            tail = p['epsilon'] * (x * x - 2.0 * x)
            return np.where(ins, p.get('high_value', 1e6), tail), judged
        if name == 'LennardJones':
            x = (sigma / r) ** 6
            val = 4.0 * p['epsilon'] * (x * x - x)
            rc = p.get('rcut')
            all_ = np.ones_like(r, dtype=bool)
            if rc is not None:
                if p.get('shift'):
                    xc = (sigma / rc) ** 6
                    val = val - 4.0 * p['epsilon'] * (xc * xc - xc)
                val = np.where(r > rc, 0.0, val)
                all_ = np.abs(r - rc) > BAND * 0 + 0.0   # the cut itself is literal in the docs (r > rcut -> 0)
            return val, all_
        if name == 'WeeksChandlerAndersen':
            rc = sigma * 2.0 ** (1.0 / 6.0)
            x = (sigma / r) ** 6
            val = 4.0 * p['epsilon'] * (x * x - x) + p['epsilon']
            val = np.where(r >= rc, 0.0, val)
            return val, np.abs(r - rc) > 1e-9 * rc
    raise ValueError(name)


# -------------------------------------------------------------- chain omegas
def pair_sum(N, w):
    """omega = 1 + (2/N) sum_{t=1}^{N-1} (N-t) w_t  with w(t) -> array over k"""
    tot = 0.0
    for t in range(1, N):
        tot = tot + (N - t) * w(t)
    return 1.0 + 2.0 * tot / N


def lagrange0(x, y):
    """value at 0 of the quadratic through three points"""
    x0, x1, x2 = x
    y0, y1, y2 = y
    return (y0 * x1 * x2 / ((x0 - x1) * (x0 - x2)) + y1 * x0 * x2 / ((x1 - x0) * (x1 - x2)) + y2 * x0 * x1 / ((x2 - x0) * (x2 - x1)))


# ------------------------------------------------------ Wertheim-Thiele (PY hard spheres, diameter d)
def wt_coeffs(eta):
    l1 = (1.0 + 2.0 * eta) ** 2 / (1.0 - eta) ** 4
    l2 = -(1.0 + 0.5 * eta) ** 2 / (1.0 - eta) ** 4
    return l1, l2


def wt_c_real(r, eta, d=1.0):
    l1, l2 = wt_coeffs(eta)
    x = np.asarray(r, dtype=float) / d
    return np.where(x < 1.0, -l1 - 6.0 * eta * l2 * x - 0.5 * eta * l1 * x ** 3, 0.0)


def wt_c_fourier(k, eta, d=1.0, n=96):
    """4 pi int_0^d c(r) r sin(kr)/k dr by Gauss-Legendre quadrature (independent of any DST)"""
    xs, ws = np.polynomial.legendre.leggauss(n)
    r = 0.5 * d * (xs + 1.0)
    w = 0.5 * d * ws
    c = wt_c_real(r * (1 - 1e-15), eta, d)
    k = np.atleast_1d(np.asarray(k, dtype=float))
    kr = np.outer(k, r)
    return 4.0 * math.pi * np.sum(w * c * r * r * np.sinc(kr / math.pi), axis=1)


def wt_contact(eta):
    return (1.0 + 0.5 * eta) / (1.0 - eta) ** 2


def wt_s0(eta):
    return (1.0 - eta) ** 4 / (1.0 + 2.0 * eta) ** 2
