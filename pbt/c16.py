"""C16 -- a PRISM object is a faithful, isolated snapshot of a fully specified System."""
import copy
import itertools
import math

import numpy as np
from hypothesis import strategies as st

from . import build, specs
from . import systems as S
from .core import History, Sub, Outcome, target, canon

PID = 'C16'
SHARDS = {'quick': 8, 'thorough': 16}
RULE = ('(missing) for fixed fully specified systems of rank 1-3 (type names not in alphabetical order) every subset of size 1-2 of the individual items {density[t], '
        'diameter[t], potential[p], closure[p], omega[p], domain} is left unassigned -- enumerated exhaustively -- and createPRISM() and '
        'solve() must raise ValueError without any potential / closure / omega calculate() having run (instance wrappers count calls). '
        '(history) a Hypothesis RuleBasedStateMachine edits one System (density, diameter, kT, replace potential / closure / omega of a '
        'pair, replace the domain or edit it in place through its dr / length setters) and calls createPRISM / solve in between; the model is the spec as edited so far. After every '
        'createPRISM the wiring is compared with the oracle built from the model (closure.potential = u_ref/kT, closure.sigma, omega = '
        'rho_site x omega_ref) and cost(x) at a generated smooth x must equal bit for bit the cost(x) of a PRISM built from a fresh '
        'System constructed from the model; solve() results must equal bit for bit those of the fresh System; the System\'s own tables, '
        'potential / closure / omega attributes and domain arrays must be unchanged by createPRISM / solve; after later edits every '
        'earlier PRISM object must still return the same cost(x). Non-trivial = >= 2 creates separated by an edit and >= 1 edit after a '
        'create; distinct = hash of (system, trace).')
ASSUMPTIONS = ['"edit potential/closure/omega" = replacing the table entry (what the tutorial sweeps do); attributes of constructed objects are not mutated',
               '"edit domain" = assigning a new Domain object, or assigning dr / length on the System\'s own Domain (dk assignments are left to C07: they do not '
               'give a bit-identical grid)',
               'two identical computations are bit-identical (asserted), so the fresh-System comparison needs no tolerance']
EPS = np.finfo(float).eps


# ----------------------------------------------------------------------------- (i) missing items

FIXED = [
    {'types': ['A'], 'kT': 1.0, 'domain': {'length': 64, 'dr': 0.25}, 'dia': [1.0], 'rho': [0.3],
     'omega': {'0,0': ['SingleSite', {}]}, 'potential': {'0,0': ['HardSphere', {}]}, 'closure': {'0,0': ['PY', False]}},
    {'types': ['A'], 'kT': 1.2, 'domain': {'length': 64, 'dr': 0.25}, 'dia': [1.0], 'rho': [0.2],
     'omega': {'0,0': ['Gaussian', {'length': 5, 'sigma': 1.0}]}, 'potential': {'0,0': ['LennardJones', {'epsilon': 0.3, 'rcut': 2.5, 'shift': True}]},
     'closure': {'0,0': ['MSA', True]}},
    {'types': ['poly', 'np'], 'kT': 1.0, 'domain': {'length': 64, 'dr': 0.25}, 'dia': [1.0, 1.5], 'rho': [0.2, 0.05],
     'omega': {'0,0': ['FreelyJointedChain', {'length': 4, 'l': 1.0}], '0,1': ['NoIntra', {}], '1,1': ['SingleSite', {}]},
     'potential': {'0,0': ['HardSphere', {}], '0,1': ['Exponential', {'epsilon': 0.2, 'alpha': 0.5}], '1,1': ['HardSphere', {}]},
     'closure': {'0,0': ['PY', False], '0,1': ['HNC', True], '1,1': ['PY', True]}},
    {'types': ['solvent', 'polymer', 'filler'], 'kT': 1.0, 'domain': {'length': 64, 'dr': 0.25}, 'dia': [1.0, 1.0, 2.0], 'rho': [0.1, 0.1, 0.01],
     'omega': {'0,0': ['SingleSite', {}], '0,1': ['NoIntra', {}], '0,2': ['InterMolecular', {}], '1,1': ['GaussianRing', {'length': 4, 'sigma': 1.0}],
               '1,2': ['NoIntra', {}], '2,2': ['SingleSite', {}]},
     'potential': {'0,0': ['HardSphere', {}], '0,1': ['HardSphere', {}], '0,2': ['HardCoreLennardJones', {'epsilon': 0.2}], '1,1': ['HardSphere', {}],
                   '1,2': ['WeeksChandlerAndersen', {'epsilon': 1.0}], '2,2': ['HardSphere', {}]},
     'closure': {'0,0': ['PY', False], '0,1': ['PY', False], '0,2': ['PY', False], '1,1': ['PY', False], '1,2': ['MS', True], '2,2': ['HNC', False]}},
]


def items_of(spec):
    n = len(spec['types'])
    it = [('density', i) for i in range(n)] + [('diameter', i) for i in range(n)]
    for tab in ('potential', 'closure', 'omega'):
        it += [(tab, S.key(i, j)) for (i, j) in S.pair_indices(n)]
    return it + [('domain', None)]


def build_partial(spec, omit, counter, via='never-assigned'):
    """System with the items in ``omit`` left unassigned; every assigned object's calculate is wrapped to count calls.
    via='replaced-table': the System is first specified completely; then every table that is to have a gap is replaced by a
    newly created table (pyPRISM.PairTable / Density / Diameter are public classes, the tables public attributes) that is filled
    in except for the gap -- a user starting a table over on a System that is being re-used"""
    P = target()
    types = list(spec['types'])
    n = len(types)
    if via == 'replaced-table':
        s = build_partial(spec, [], counter)
        partial = build_partial(spec, omit, counter)
        for kind in sorted(set(o[0] for o in omit)):
            if kind == 'domain':
                s.domain = None
            else:
                setattr(s, kind, getattr(partial, kind))
        return s
    s = P.System(types, kT=spec['kT']) if spec['kT'] != 1.0 else P.System(types)     # kT=1.0 is the documented default
    omit = set(tuple(o) for o in omit)

    def wrap(obj):
        if counter is None:      # (a wrapped object cannot be deep-copied meaningfully: only for systems that must be rejected)
            return obj
        orig = obj.calculate

        def counted(*a, **kw):
            counter[0] += 1
            return orig(*a, **kw)
        obj.calculate = counted
        return obj
    if ('domain', None) not in omit:
        s.domain = P.Domain(length=spec['domain']['length'], dr=spec['domain']['dr'])
    rho = S.density_of(spec)
    for i, t in enumerate(types):
        if ('density', i) not in omit:
            s.density[t] = rho[i]
        if ('diameter', i) not in omit:
            s.diameter[t] = spec['dia'][i]
    k = S.grid_k(spec)
    for (i, j) in S.pair_indices(n):
        kk = S.key(i, j)
        sig = (spec['dia'][i] + spec['dia'][j]) / 2.0
        if ('omega', kk) not in omit:
            s.omega[types[i], types[j]] = wrap(S.make_omega(spec['omega'][kk], k))
        if ('potential', kk) not in omit:
            s.potential[types[i], types[j]] = wrap(S.make_potential(spec['potential'][kk], sig))
        if ('closure', kk) not in omit:
            s.closure[types[i], types[j]] = wrap(S.make_closure(spec['closure'][kk]))
    return s


class Missing(Sub):
    name = 'missing'
    kind = 'enum'
    doc = 'exhaustive: every subset of size 1-2 of the individual specification items omitted, on four fixed systems of rank 1-3, for createPRISM and solve'
    budget = {'quick': 0, 'thorough': 0}

    def enumerate(self, tier):
        for si, spec in enumerate(FIXED):
            its = items_of(spec)
            # nothing missing, but one table was replaced by an equal, newly created and completely filled one
            for kind in ('density', 'diameter', 'potential', 'closure', 'omega', 'domain'):
                yield {'system': si, 'omit': [], 'replace': kind}
            for r in (1, 2):
                for omit in itertools.combinations(its, r):
                    yield {'system': si, 'omit': [list(o) for o in omit]}
                    yield {'system': si, 'omit': [list(o) for o in omit], 'via': 'replaced-table'}

    def check(self, case):
        out = Outcome()
        sig = PID + '/missing/'
        spec = FIXED[case['system']]
        if case.get('replace'):
            P = target()
            s, s2, ref = build_partial(spec, [], None), build_partial(spec, [], None), build_partial(spec, [], None)
            setattr(s, case['replace'], getattr(s2, case['replace']))
            try:
                pr = S.quiet(s.createPRISM)
            except Exception as exc:   # noqa
                out.fail(sig + 'complete-system-rejected', 'createPRISM() raised %s: %s on a completely specified System whose %s table was replaced by an equal new one' % (
                    type(exc).__name__, exc, case['replace']))
                return out
            pr0 = S.quiet(ref.createPRISM)
            n = len(spec['types']) ** 2 * spec['domain']['length']
            x = 0.01 * np.cos(np.arange(n) * 0.37)
            y, y0 = S.quiet(pr.cost, x.copy()), S.quiet(pr0.cost, x.copy())
            if np.shape(y) != np.shape(y0) or not np.array_equal(y, y0, equal_nan=True):
                out.fail(sig + 'replaced-table-not-used', 'cost(x) of a System whose %s was replaced by an equal new object differs from the original System' % case['replace'])
            out.nontrivial = True
            out.label('rank=%d' % len(spec['types']), 'complete-with-replaced-' + case['replace'])
            return out
        kinds = '+'.join(sorted(o[0] for o in case['omit']))
        for how in ('createPRISM', 'solve'):
            counter = [0]
            s = build_partial(spec, case['omit'], counter, case.get('via', 'never-assigned'))
            try:
                if how == 'createPRISM':
                    S.quiet(s.createPRISM)
                else:
                    S.quiet(s.solve, method='krylov', options={'disp': False, 'maxiter': 2})
                raised = None
            except ValueError:
                raised = 'ValueError'
            except Exception as exc:   # noqa
                raised = type(exc).__name__
            if raised is None:
                out.fail(sig + how + '-accepts-partial-system', '%s() returned although %s is missing' % (how, case['omit']))
            elif raised != 'ValueError':
                out.fail(sig + how + '-raises-' + raised, '%s() raised %s instead of ValueError with %s missing' % (how, raised, case['omit']))
            if counter[0]:
                out.fail(sig + how + '-starts-calculation', '%s() evaluated %d potential/closure/omega objects before rejecting the system (missing %s)' % (
                    how, counter[0], case['omit']))
        out.nontrivial = True
        out.label('rank=%d' % len(spec['types']), 'missing=' + kinds, 'gap-via=' + case.get('via', 'never-assigned'))
        return out


# ----------------------------------------------------------------------------- (ii) histories

def fingerprint(s):
    """everything observable on a System: table values, object attributes, domain arrays"""
    fp = {'kT': repr(s.kT), 'types': list(s.types)}
    for t in s.types:
        fp['rho:' + t] = repr(s.density[t])
        fp['d:' + t] = repr(s.diameter[t])
        fp['vol:' + t] = repr(s.diameter.volume[t])
    fp['total'] = repr(s.density.total)
    fp['pair'] = s.density.pair.data.tobytes()
    fp['site'] = s.density.site.data.tobytes()
    for a in s.types:
        for b in s.types:
            fp['sigma:%s%s' % (a, b)] = repr(s.diameter.sigma[a, b])
            for tab in ('potential', 'closure', 'omega'):
                obj = getattr(s, tab)[a, b]
                d = {}
                if not hasattr(obj, '__dict__'):
                    fp['%s:%s%s' % (tab, a, b)] = (type(obj).__name__, obj.tobytes() if isinstance(obj, np.ndarray) else repr(obj))
                    continue
                for k_, v in sorted(vars(obj).items()):
                    if callable(v):
                        continue
                    d[k_] = v.tobytes() if isinstance(v, np.ndarray) else (repr(sorted((kk, repr(vv)) for kk, vv in vars(v).items() if not callable(vv)))
                                                                        if hasattr(v, '__dict__') else repr(v))
                fp['%s:%s%s' % (tab, a, b)] = (type(obj).__name__, d)
    dom = s.domain
    fp['domain'] = (repr(dom.length), repr(dom.dr), repr(dom.dk), dom.r.tobytes(), dom.k.tobytes(), dom.DST_II_coeffs.tobytes(),
                    dom.DST_III_coeffs.tobytes())
    return fp


def fp_diff(a, b):
    return sorted(k for k in set(a) | set(b) if a.get(k) != b.get(k))


ON_GRID = [1.0, 1.5, 2.0, 0.5, 1.25]


def edit_ops():
    pot = S._potential(1.0).map(lambda d: [d[0], dict({k: v for k, v in d[1].items() if k != 'rcut_f'},
                                                          **({'rcut': 2.5} if d[0] == 'LennardJones' else {}))])
    # MSA / MS without the hard-core flag are legal objects too (wiring and isolation do not need a convergent system)
    clo = st.tuples(st.sampled_from(['PY', 'PY', 'HNC', 'MSA', 'MS']), st.booleans()).map(lambda t: [t[0], t[1]])
    om = st.one_of(st.just(['SingleSite', {}]), st.builds(lambda N: ['Gaussian', {'length': N, 'sigma': 1.0}], st.integers(2, 20)),
                   st.builds(lambda N: ['FreelyJointedChain', {'length': N, 'l': 1.0}], st.integers(2, 20)),
                   st.builds(lambda N: ['GaussianRing', {'length': N, 'sigma': 1.0}], st.integers(3, 12)))
    idx = st.integers(0, 5)
    return {
        'set_density': {'t': idx, 'v': specs.logfloat(-3, -0.5, 4)},
        'set_diameter': {'t': idx, 'v': st.sampled_from(ON_GRID)},
        'set_kT': {'v': specs.logfloat(-0.3, 0.7, 4)},
        'set_potential': {'p': idx, 'desc': pot},
        'set_closure': {'p': idx, 'desc': clo},
        'set_omega': {'t': idx, 'desc': om},
        'set_domain': {'length': st.sampled_from([256, 300, 512]), 'dr': st.sampled_from([0.125, 0.25, 0.2])},
        'mutate_domain': {'which': st.sampled_from(['dr', 'length']), 'dr': st.sampled_from([0.125, 0.25, 0.2, 0.1]), 'length': st.sampled_from([256, 300, 512])},
        'create': {'x': specs.array_desc(4, (-2, -0.5))},
        'solve': {},
    }


class State(object):
    pass


class Histories(History):
    name = 'history'
    doc = 'stateful machine: edits of one System interleaved with createPRISM / solve; model = edited spec; differential oracle = fresh System from the model'
    budget = {'quick': 240, 'thorough': 8000}
    steps = {'quick': 15, 'thorough': 25}
    shrink = {'quick': False, 'thorough': True}

    def params_strategy(self, tier):
        def norm(spec):
            spec = copy.deepcopy(spec)
            spec['rho'] = [float('%.6g' % v) for v in S.density_of(spec)]
            spec.pop('eta')
            spec['dia'] = [d if d in ON_GRID else 1.0 for d in spec['dia']]
            # type names are arbitrary labels: not always in alphabetical order
            names = [['A', 'B', 'C'], ['solvent', 'polymer', 'filler'], ['Z', 'Y', 'X'], ['b', 'a', 'c']][int(round(spec['kT'] * 1000)) % 4]
            spec['types'] = names[:len(spec['types'])]
            spec['domain'] = {'length': 256, 'dr': 0.125}
            for kk, d in spec['potential'].items():
                if d[0] == 'LennardJones':
                    f = d[1].pop('rcut_f', None)
                    d[1]['rcut'] = None if f is None else 2.5
            for kk, d in spec['omega'].items():
                if d[0] in ('Diblock', 'DiscreteKoyama'):
                    i, j = kk.split(',')
                    spec['omega'][kk] = ['SingleSite', {}] if i == j else ['NoIntra', {}]
            return spec
        return S.system_spec(allow_ms=True, max_types=4).map(norm)

    def ops(self, tier):
        return edit_ops()

    def init(self, params, out):
        st_ = State()
        st_.model = copy.deepcopy(params)
        st_.sys = S.build_system(params)
        st_.created = []         # (prism, x, y)
        st_.edits_since_create = 0
        st_.n_creates_after_edit = 0
        st_.edit_after_create = False
        st_.trace_kinds = []
        return st_

    # -- helpers
    def _pair(self, st_, p):
        n = len(st_.model['types'])
        prs = S.pair_indices(n)
        return prs[p % len(prs)]

    def apply(self, st_, op, out):
        P = target()
        sig = PID + '/history/'
        m, s = st_.model, st_.sys
        types = m['types']
        n = len(types)
        kind = op['op']
        st_.trace_kinds.append(kind)
        if kind in ('create', 'solve'):
            before = fingerprint(s)
            fresh = S.build_system(m)
            if kind == 'create':
                pr = S.quiet(s.createPRISM)
                prf = S.quiet(fresh.createPRISM)
                self.wiring(m, pr, out, sig)
                L = m['domain']['length']
                raw = build.array(op['x'], n * n * L).reshape((L, n, n))
                raw = 0.5 * (raw + np.transpose(raw, (0, 2, 1)))
                x = (raw / (float(np.max(np.abs(raw))) or 1.0) * 0.05).reshape(-1)
                y = np.array(S.quiet(pr.cost, x.copy()))
                yf = np.array(S.quiet(prf.cost, x.copy()))
                if y.shape != yf.shape or y.tobytes() != yf.tobytes():
                    out.fail(sig + 'edited-system-differs-from-fresh-system', 'cost(x) of a PRISM created from the edited System differs from that of a fresh System '
                             'with the same parameters (max diff %.3g) after edits %s' % (float(np.nanmax(np.abs(y - yf))) if y.shape == yf.shape else float('nan'),
                                                                                         st_.trace_kinds[-8:]))
                st_.created.append((pr, x, y))
                if st_.edits_since_create and len(st_.created) > 1:
                    st_.n_creates_after_edit += 1
                st_.edits_since_create = 0
            else:
                opts = {'disp': False, 'maxiter': 15}
                try:
                    r1 = S.quiet(s.solve, method='krylov', options=opts).minimize_result
                    e1 = None
                except Exception as exc:   # noqa -- numerical blow-ups must be the same on both sides
                    r1, e1 = None, type(exc).__name__
                try:
                    r2 = S.quiet(fresh.solve, method='krylov', options=opts).minimize_result
                    e2 = None
                except Exception as exc:   # noqa
                    r2, e2 = None, type(exc).__name__
                # System.solve is documented as createPRISM followed by PRISM.solve with the same arguments: an absolute anchor, so that
                # a defect that hits the edited and the fresh System alike is not hidden by comparing them with each other
                try:
                    r3 = S.quiet(S.quiet(S.build_system(m).createPRISM).solve, method='krylov', options=opts)
                    e3 = None
                except Exception as exc:   # noqa
                    r3, e3 = None, type(exc).__name__
                if e2 != e3:
                    out.fail(sig + 'system-solve-is-not-create-then-solve', 'System.solve() %s, createPRISM().solve() %s' % (
                        'raised ' + e2 if e2 else 'returned', 'raised ' + e3 if e3 else 'returned'))
                elif r2 is not None and np.asarray(r2.x).tobytes() != np.asarray(r3.x).tobytes():
                    out.fail(sig + 'system-solve-is-not-create-then-solve', 'System.solve() and createPRISM().solve() give different results (max |dx| = %.3g)' % (
                        float(np.nanmax(np.abs(np.asarray(r2.x) - np.asarray(r3.x))))))
                if e1 != e2:
                    out.fail(sig + 'edited-system-solve-differs-from-fresh-system', 'solve() on the edited System %s, on a fresh System %s' % (
                        'raised ' + e1 if e1 else 'returned', 'raised ' + e2 if e2 else 'returned'))
                elif r1 is not None and np.asarray(r1.x).tobytes() != np.asarray(r2.x).tobytes():
                    out.fail(sig + 'edited-system-solve-differs-from-fresh-system', 'solve() on the edited System gives a different result than on a fresh System '
                             'with the same parameters (max |dx| = %.3g) after edits %s' % (float(np.nanmax(np.abs(r1.x - r2.x))), st_.trace_kinds[-8:]))
            after = fingerprint(s)
            d = fp_diff(before, after)
            if d:
                out.fail(sig + 'system-modified-by-' + kind, '%s() modified the System: %s' % (kind, d[:6]))
            return
        # ---- edits
        st_.edits_since_create += 1
        if st_.created:
            st_.edit_after_create = True
        if kind == 'set_density':
            t = op['t'] % n
            m['rho'][t] = op['v']
            s.density[types[t]] = op['v']
        elif kind == 'set_diameter':
            t = op['t'] % n
            m['dia'][t] = op['v']
            s.diameter[types[t]] = op['v']
        elif kind == 'set_kT':
            m['kT'] = op['v']
            s.kT = op['v']
        elif kind == 'set_potential':
            i, j = self._pair(st_, op['p'])
            desc = copy.deepcopy(op['desc'])
            if 'epsilon' in desc[1]:
                desc[1]['epsilon'] = float('%.4g' % (desc[1]['epsilon'] * min(1.0, m['kT'])))
            m['potential'][S.key(i, j)] = desc
            s.potential[types[i], types[j]] = S.make_potential(desc, None)
        elif kind == 'set_closure':
            i, j = self._pair(st_, op['p'])
            m['closure'][S.key(i, j)] = list(op['desc'])
            s.closure[types[i], types[j]] = S.make_closure(op['desc'])
        elif kind == 'set_omega':
            t = op['t'] % n
            m['omega'][S.key(t, t)] = copy.deepcopy(op['desc'])
            s.omega[types[t], types[t]] = S.make_omega(op['desc'])
        elif kind == 'set_domain':
            m['domain'] = {'length': op['length'], 'dr': op['dr']}
            s.domain = P.Domain(length=op['length'], dr=op['dr'])
        elif kind == 'mutate_domain':
            # in-place edit of the System's own Domain through its setters (dr and length setters compute dk exactly as the
            # constructor does, so the result is bit-identical to a freshly constructed Domain)
            if op['which'] == 'dr':
                m['domain'] = {'length': m['domain']['length'], 'dr': op['dr']}
                s.domain.dr = op['dr']
            else:
                m['domain'] = {'length': op['length'], 'dr': m['domain']['dr']}
                s.domain.length = op['length']
        # isolation: every PRISM object created earlier still computes the same thing
        for (pr, x, y) in st_.created:
            y2 = np.array(S.quiet(pr.cost, x.copy()))
            if y2.tobytes() != y.tobytes():
                out.fail(sig + 'earlier-PRISM-affected-by-later-edit', 'after %s on the System an earlier PRISM object returns a different cost(x) (max diff %.3g)' % (
                    kind, float(np.nanmax(np.abs(y2 - y)))))
                break

    def wiring(self, m, pr, out, sig):
        ref = S.reference(m)
        n = ref['n']
        types = pr.sys.types
        for (i, j) in ref['omega_unknown']:
            return
        r = ref['r']
        for (i, j) in S.pair_indices(n):
            clo = pr.sys.closure[types[i], types[j]]
            u = np.asarray(clo.potential, dtype=float)
            want = ref['u'][:, i, j]
            judged = ref['u_judged'][:, i, j]
            from . import c10
            pname, pp = m['potential'][S.key(i, j)][0], m['potential'][S.key(i, j)][1]
            psig = S.potential_sigma(m, i, j)
            q = S.pot_params(pname, pp, psig)
            q.setdefault('high_value', 1e6)
            with np.errstate(all='ignore'):
                # rounding is relative to the size of the terms that are added (12-6 forms cancel near r = sigma)
                mag = c10.magnitude(pname, q, r, psig) / m['kT'] + np.abs(want)
                ok = (np.abs(u - want) <= 4e-12 * mag + 1e-300) | ~judged | ~np.isfinite(mag)
            if u.shape != want.shape or not np.all(ok):
                mm = int(np.flatnonzero(~ok)[0]) if u.shape == want.shape else 0
                out.fail(sig + 'wiring/potential', 'pair (%s,%s): closure.potential(r=%.4g) = %r, model %s/kT gives %r' % (
                    types[i], types[j], r[mm], float(u[mm]) if u.shape == want.shape else None, m['potential'][S.key(i, j)], float(want[mm])))
                return
            if clo.sigma is None or abs(float(clo.sigma) - ref['sigma'][i, j]) > 1e-6:
                out.fail(sig + 'wiring/sigma', 'pair (%s,%s): closure.sigma = %r, model contact distance %r' % (types[i], types[j], clo.sigma, float(ref['sigma'][i, j])))
                return
            om = np.asarray(pr.omega[types[i], types[j]], dtype=float)
            wo = ref['Omega'][:, i, j]
            # the mirrored element is part of the matrix the solver multiplies with: it must hold the same function
            if not np.array_equal(om, np.asarray(pr.omega[types[j], types[i]], dtype=float)):
                out.fail(sig + 'wiring/omega', 'pair (%s,%s): PRISM.omega is not symmetric in the two type labels' % (types[i], types[j]))
                return
            if om.shape != wo.shape or np.any(np.abs(om - wo) > ref['Omega_tol'][:, i, j] + 1e-12 * np.abs(wo) + 1e-300):
                out.fail(sig + 'wiring/omega', 'pair (%s,%s): PRISM.omega differs from rho_site x omega_ref of the model' % (types[i], types[j]))
                return

    def finish(self, st_, trace, out):
        out.nontrivial = st_.n_creates_after_edit >= 1 and st_.edit_after_create
        out.label('rank=%d' % len(st_.model['types']))
        if st_.edit_after_create:
            out.label('edit-after-create')
        if st_.n_creates_after_edit:
            out.label('create-edit-create')
        for k in set(st_.trace_kinds):
            out.label('op=' + k)


_h = Histories()
SUBS = [Missing(), _h]
