"""C03 -- hard-core exclusion: g(r) vanishes everywhere inside the contact distance."""
import numpy as np
from hypothesis import strategies as st

from . import build, specs
from . import systems as S
from .core import Sub, Outcome, target

PID = 'C03'
SHARDS = {'quick': 8, 'thorough': 16}
RULE = ('Systems from the C01 generator forced to contain at least one hard-core pair (HS / HCLJ / Exponential closed with unflagged PY or '
        'HNC, optionally with an explicit potential sigma, or any closure with the hard-core flag), kT from 0.5 up to 1000. (evaluation) trial x vectors = smooth '
        'random fields x amplitude 1e-3..10 (applied to x, or to gamma = x/r itself up to |gamma| = 1e3), also sign changing and asymmetric; each closure instance is wrapped from outside to capture '
        '(r, gamma_in, c_out) during PRISM.cost(x): at every grid point with r_i <= sigma (literal comparison) c_out + gamma_in = -1 '
        'within 4 ulp of max(1,|gamma|), and the same through the pipeline (own inverse DST of the stored directCorr + GammaIn) within '
        'DST round-off. (solved) converged ladder rungs: |g(r_i)| <= (|y_i| + round-off)/r_i inside the core. Non-trivial = >= 3 grid '
        'points inside a core and max|gamma| > 1e-3 (evaluation) / converged (solved); distinct = spec hash.')
ASSUMPTIONS = ['"inside" is the literal r_i <= sigma with sigma the nominal contact distance (mean diameter / explicit potential sigma): '
               'independent of the contact-tolerance question judged by C10',
               'unflagged PY/HNC pairs count as hard-core only when high_value/kT > 745 (exp underflows to exactly 0), which the default '
               'high_value=1e6 guarantees for every generated kT',
               'for unflagged HNC the mechanism is exp(gamma-u) = 0, i.e. u - gamma > 745: grid points with gamma >= high_value/kT - 750 (reachable only '
               'with kT ~ 1e3 and |gamma| ~ 1e3 together) are not judged',
               'MSA/MS are generated with the flag only (documented not to work on divergent potentials without it)']
EPS = np.finfo(float).eps
HARD_POT = ('HardSphere', 'HardCoreLennardJones', 'Exponential')


def hard_pairs(spec):
    """{key: sigma_core} of the pairs that the property calls hard-core"""
    out = {}
    n = len(spec['types'])
    for (i, j) in S.pair_indices(n):
        kk = S.key(i, j)
        name, flag = spec['closure'][kk]
        pot = spec['potential'][kk][0]
        mean = (spec['dia'][i] + spec['dia'][j]) / 2.0
        if flag and name in ('PY', 'HNC') and pot in HARD_POT:
            out[kk] = max(mean, S.potential_sigma(spec, i, j))      # either mechanism excludes: the union of both cores
        elif flag:
            out[kk] = mean
        elif name in ('PY', 'HNC') and pot in HARD_POT:
            out[kk] = S.potential_sigma(spec, i, j)
    return out


def force_hard(spec, sig_draw, hot=None):
    """make sure there is a hard-core pair; optionally give unflagged hard potentials an explicit sigma; optionally raise kT
    (up to 1000: high_value/kT stays above 745, so exp(-u) is still exactly 0 inside the cores)"""
    spec = dict(spec)
    if hot:
        spec['kT'] = float('%.4g' % min(1000.0, spec['kT'] * hot))
    spec['potential'] = dict(spec['potential'])
    spec['closure'] = dict(spec['closure'])
    if not hard_pairs(spec):
        spec['potential']['0,0'] = ['HardSphere', {}]
        spec['closure']['0,0'] = ['PY', False]
    dr = spec['domain']['dr']
    for idx, kk in enumerate(sorted(spec['potential'])):
        name, flag = spec['closure'][kk]
        pot = spec['potential'][kk]
        d = sig_draw[idx % len(sig_draw)]
        if d is not None and not flag and name in ('PY', 'HNC') and pot[0] in HARD_POT:
            i, j = [int(v) for v in kk.split(',')]
            mean = (spec['dia'][i] + spec['dia'][j]) / 2.0
            spec['potential'][kk] = [pot[0], pot[1], float('%.10g' % (round(mean * d / dr) * dr))]
    return spec


def core_strategy(tier, max_types=3):
    sig = st.lists(st.one_of(st.none(), st.none(), st.sampled_from([0.8, 1.0, 1.2, 0.5])), min_size=6, max_size=6)
    hot = st.sampled_from([None, None, 10.0, 50.0, 200.0, 1000.0])
    return st.tuples(S.system_spec(big=(tier == 'thorough'), allow_ms=True, max_types=max_types), sig, hot).map(lambda t: force_hard(*t))


class Evaluation(Sub):
    name = 'evaluation'
    doc = 'arbitrary trial x: closure output captured inside cost() and the stored directCorr satisfy c + gamma_in = -1 inside every core'
    budget = {'quick': 800, 'thorough': 48000}

    def strategy(self, tier):
        # evaluations of cost() are cheap: up to four site types here (solved systems: up to three)
        return st.tuples(core_strategy(tier, max_types=4), specs.array_desc(6, (-3, 1)), specs.logfloat(-3, 1, 4), st.booleans(), st.booleans()).map(
            lambda t: dict(t[0], x=t[1], amp=t[2], symmetric=t[3], gamma_scaled=t[4]))

    def check(self, spec):
        P = target()
        out = Outcome()
        sig = PID + '/evaluation/'
        n = len(spec['types'])
        L = spec['domain']['length']
        s = S.build_system(spec)
        pr = S.quiet(s.createPRISM)
        r = pr.sys.domain.r
        if len(r) != L:
            out.skipped = 'domain-grid-miscount'
            return out
        raw = build.array(spec['x'], n * n * L)
        m = float(np.max(np.abs(raw))) or 1.0
        x = (raw / m * spec['amp']).reshape((L, n, n))
        if spec.get('gamma_scaled'):
            # the amplitude applies to gamma = x/r itself (up to 1e3: beyond every clipping / overflow guard one might add)
            x = x * r.reshape((-1, 1, 1)) * 100.0
        if spec['symmetric']:
            x = 0.5 * (x + np.transpose(x, (0, 2, 1)))
        x = x.reshape(-1)
        captured = {}
        types = pr.sys.types
        for (i, j), (t1, t2), clo in pr.sys.closure.iterpairs():
            orig = clo.calculate

            def wrapped(rr, gamma, _orig=orig, _k=S.key(i, j)):
                gin = np.array(gamma)
                c = _orig(rr, gamma)
                captured[_k] = (np.array(rr), gin, np.array(c))
                return c
            clo.calculate = wrapped
        try:
            S.quiet(pr.cost, x)
            evaluated = True
        except Exception as exc:   # noqa -- a huge trial gamma may overflow outside the cores and make I - Omega C singular
            if not (isinstance(exc, (ArithmeticError, ValueError)) or type(exc).__name__ == 'LinAlgError'):
                raise
            evaluated = False
        hard = hard_pairs(spec)
        ref = S.reference(spec)
        npts, gmax = 0, 0.0
        for kk, sigma in hard.items():
            i, j = [int(v) for v in kk.split(',')]
            if kk not in captured:
                # an implementation need not evaluate the pair's own closure instance (e.g. a batched evaluation): then only the
                # pipeline form of the statement can be observed
                out.label('closure-call-not-observed')
                rr = np.asarray(pr.sys.domain.r)
                gin = np.array(pr.GammaIn.data[:, i, j])
                c = None
            else:
                rr, gin, c = captured[kk]
            ins = rr <= sigma
            if spec['closure'][kk][0] == 'HNC' and not spec['closure'][kk][1]:
                # unflagged HNC excludes through exp(gamma - u) underflowing: that needs u - gamma > 745, not just u > 745
                # (only reachable here by combining kT ~ 1000 with |gamma| ~ 1000; u = high_value/kT inside the core)
                u_core = float(spec['potential'][kk][1].get('high_value', 1e6)) / spec['kT']
                ins = ins & (gin < u_core - 750.0)
            npts = max(npts, int(np.count_nonzero(ins)))
            if not np.any(ins):
                continue
            gmax = max(gmax, float(np.max(np.abs(gin[ins]))))
            if c is None:
                dev = lim = np.zeros(1)
            else:
                dev = np.abs(c[ins] + gin[ins] + 1.0)
                lim = 4 * EPS * np.maximum(1.0, np.abs(gin[ins]))
            if c is not None and (np.any(dev > lim) or not np.all(np.isfinite(c[ins]))):
                m_ = int(np.argmax(dev - lim))
                out.fail(sig + 'closure-output-not-minus-one-minus-gamma',
                         'pair %s (%s%s, %s): closure output at r=%.4g <= sigma=%.4g gives c+gamma = %r, not -1 (gamma=%r)' % (
                             kk, spec['closure'][kk][0], '+flag' if spec['closure'][kk][1] else '', spec['potential'][kk][0], rr[ins][m_], sigma,
                             float(c[ins][m_] + gin[ins][m_]), float(gin[ins][m_])))
                continue
            # through the pipeline: stored directCorr (Fourier) back-transformed + stored GammaIn
            if not evaluated or not np.all(np.isfinite(pr.directCorr.data)):
                continue
            for (a, b) in ((i, j), (j, i)):
                c_st = S.to_real(ref, np.array(pr.directCorr.data[:, a, b]))
                g_st = np.array(pr.GammaIn.data[:, i, j])
                rt = 64 * EPS * L * float(np.max(np.abs(rr * c_st)) + 1.0) / rr
                dev = np.abs(c_st + g_st + 1.0)[ins]
                if np.any(dev > rt[ins] + 4 * EPS * np.maximum(1.0, np.abs(g_st[ins]))):
                    out.fail(sig + 'stored-directCorr-violates-core', 'pair (%s,%s): IFT(directCorr)+GammaIn = %r inside the core, not -1' % (
                        types[a], types[b], float((c_st + g_st)[ins][int(np.argmax(dev))])))
                    break
        out.nontrivial = npts >= 3 and gmax > 1e-3
        for kk in hard:
            out.label('hard=' + spec['closure'][kk][0] + ('+flag' if spec['closure'][kk][1] else '') + '/' + spec['potential'][kk][0]
                      + ('/explicit-sigma' if len(spec['potential'][kk]) > 2 else ''))
        out.label('types=%d' % n, 'kT>=30' if spec['kT'] >= 30 else 'kT<30', 'amp>1' if spec['amp'] > 1 else 'amp<=1', 'max|gamma|>50' if gmax > 50 else 'max|gamma|<=50')
        return out


class Solved(Sub):
    name = 'solved'
    doc = 'converged ladder rungs: |g| <= (|y|+round-off)/r at every grid point inside every core'
    budget = {'quick': 64, 'thorough': 9600}
    shrink = {'quick': False, 'thorough': True}

    OBSERVE = ['pair_correlation', 'pair_correlation', 'structure_factor', 'second_virial', 'solvation_potential', 'pmf', 'spinodal_condition']

    def strategy(self, tier):
        # 'observe': what is called on the solved object before g(r) is read (again): the solved object stays a solved object,
        # so every g(r) it hands out -- the first, one after Fourier-space post-processing, a repeated one -- obeys the bound
        return st.tuples(core_strategy(tier), st.lists(st.sampled_from(self.OBSERVE), max_size=4)).map(lambda t: dict(t[0], observe=t[1]))

    def check(self, spec):
        P = target()
        out = Outcome()
        sig = PID + '/solved/'
        if spec.get('observe'):
            out.label('g-read-after-' + str(len(spec['observe'])) + '-calls')
        hard = hard_pairs(spec)
        n = len(spec['types'])
        L = spec['domain']['length']
        judged = 0
        for scale, pr, res in S.solve_ladder(spec):
            if res is None or not res.success:
                break
            judged += 1
            y = np.asarray(res.fun, dtype=float).reshape((L, n, n))
            r = pr.sys.domain.r
            hmax = float(np.max(np.abs(pr.totalCorr.data)))
            history = []
            for step in list(spec.get('observe') or []) + ['pair_correlation']:
                history.append(step)
                if step != 'pair_correlation':
                    try:
                        S.quiet(getattr(P.calculate, step), pr)
                    except Exception:   # noqa -- whether the other functions work is judged by C05 / C06
                        history[-1] += '(raised)'
                    continue
                g = S.quiet(P.calculate.pair_correlation, pr)
                for kk, sigma in hard.items():
                    i, j = [int(v) for v in kk.split(',')]
                    ins = r <= sigma
                    gv = np.asarray(g[pr.sys.types[i], pr.sys.types[j]], dtype=float)
                    rt = 64 * EPS * L * (float(np.max(r)) * (hmax + 1.0)) / r
                    bound = (np.abs(y[:, i, j]) + 1e-12) / r + rt
                    bad = ins & ~(np.abs(gv) <= bound)
                    if np.any(bad):
                        m_ = int(np.flatnonzero(bad)[0])
                        out.fail(sig + 'g-nonzero-inside-core', 'pair %s (%s, %s) at density scale %g: g(r=%.4g) = %.3g inside the core sigma=%.4g, bound |y|/r = %.3g (calls on the solved object: %s)' % (
                            kk, spec['closure'][kk][0], spec['potential'][kk][0], scale, r[m_], float(gv[m_]), sigma, float(bound[m_]), history))
                        break
                if out.violations:
                    break
            if out.violations:
                break
        out.nontrivial = judged > 0
        out.label('rungs-judged=%d' % judged)
        for kk in hard:
            out.label('hard=' + spec['closure'][kk][0] + ('+flag' if spec['closure'][kk][1] else '') + '/' + spec['potential'][kk][0])
        if judged == 0:
            out.skipped = 'no-rung-converged'
        return out


SUBS = [Evaluation(), Solved()]
