"""CLI:  python -m pbt.run <ID> --tier quick|thorough [--procs N] [--only sub,sub]
         python -m pbt.run <ID> --replay <file>
"""
import os
import sys

_ENV = {'PYTHONHASHSEED': '0', 'OMP_NUM_THREADS': '1', 'OPENBLAS_NUM_THREADS': '1',
        'MKL_NUM_THREADS': '1', 'PYTHONDONTWRITEBYTECODE': '1', 'PYPRISM_VERIF': '1'}


def _reexec_if_needed():
    if all(os.environ.get(k) == v for k, v in _ENV.items()):
        return
    env = dict(os.environ)
    env.update(_ENV)
    os.execve(sys.executable, [sys.executable, '-m', 'pbt.run'] + sys.argv[1:], env)


def main(argv=None):
    import argparse
    ap = argparse.ArgumentParser()
    ap.add_argument('pid')
    ap.add_argument('--tier', default=os.environ.get('VERIF_TIER', 'quick'), choices=['quick', 'thorough'])
    ap.add_argument('--replay')
    ap.add_argument('--procs', type=int, default=None)
    ap.add_argument('--only', default=None)
    ap.add_argument('--seed', type=int, default=None)
    a = ap.parse_args(argv)
    from pbt import core
    try:
        seed = a.seed if a.seed is not None else int(os.environ.get('VERIF_SEED', '1') or '1')
    except ValueError:
        seed = 1
    try:
        if a.replay:
            return core.run_replay(a.pid.upper(), a.replay)
        only = set(a.only.split(',')) if a.only else None
        return core.run_property(a.pid.upper(), a.tier, seed, a.procs, only)
    except core.HarnessError as exc:
        sys.stderr.write('HARNESS ERROR: %s\n' % exc)
        return core.EXIT_HARNESS
    except Exception:
        import traceback
        sys.stderr.write('HARNESS ERROR (uncaught):\n' + traceback.format_exc())
        return core.EXIT_HARNESS


if __name__ == '__main__':
    _reexec_if_needed()
    sys.exit(main())
