"""C10 -- potentials equal their definitions, with consistent cores, cut-offs and sigma."""
import warnings

import numpy as np
from hypothesis import strategies as st

from . import oracles as O
from . import specs
from .core import Sub, Outcome, target

PID = 'C10'
SHARDS = {'quick': 4, 'thorough': 16}
RULE = ('(values) generated potential (HardSphere, Exponential, LennardJones cut/shift variants, HardCoreLennardJones, WCA) x parameters '
        '(epsilon +-[1e-3,10], alpha [0.05,5], sigma on/off the grid, rcut in [sigma,5 sigma] or None, shift, high_value in {1e2,1e6,1e12}) '
        'x grid (Domain-like i*dr with decimal dr, or arbitrary increasing r): value = documented formula at every point outside the '
        'band (sigma, sigma+1e-6) to 1e-12 of the term magnitudes, LJ exactly 0 beyond rcut and Lipschitz-small just inside when '
        'shifted, WCA >= -rounding and 0 beyond 2^(1/6) sigma, bitwise elementwise-ness on sub-samples, repeatability, r unmodified. '
        '(system) generated 1-3 type Systems through createPRISM: closure.potential*kT = formula at sigma = explicit value or mean '
        'diameter, the System\'s own potential objects untouched, and the contact rule: a grid point within 1e-6 of sigma carries the '
        'overlap value for HS/HCLJ/Exponential, for every pair alike. (contact-scan) exhaustive sigma = m*dr, m=1..400, 10 decimal '
        'spacings, sigma written as product / decimal literal / mean of two diameters. (reuse) one potential object with sigma re-assigned and '
        'other grids evaluated between calls equals a fresh object every time. Non-trivial = grid points on both sides of '
        'sigma (values) / at least one on-grid sigma (system); distinct = spec hash.')
ASSUMPTIONS = ['grid points in the open band (sigma, sigma+1e-6) are judged only by the contact rule, and only for Systems '
               '(a bare potential has no notion of "the grid"; the suite pins r>sigma literally for bare potentials)',
               'Exponential tail is -epsilon*exp(-(r-sigma)/alpha) ("attractive", as README, tutorial and Exponential_test use it)',
               'WCA and LJ are generated with epsilon > 0 (documented as strength of repulsion / attraction); HCLJ and Exponential with either sign']

EPS = np.finfo(float).eps
HARD = ('HardSphere', 'Exponential', 'HardCoreLennardJones')
NAMES = ('HardSphere', 'Exponential', 'LennardJones', 'HardCoreLennardJones', 'WeeksChandlerAndersen')


def make_potential(name, p, sigma):
    """constructed the way a user writes it: an argument whose value is the documented default (high_value=1e6, rcut=None,
    shift=False) is left out, so the defaults themselves are exercised"""
    P = target()
    kw = {'sigma': sigma}
    if name != 'HardSphere':
        kw['epsilon'] = p['epsilon']
    if name == 'Exponential':
        kw['alpha'] = p['alpha']
    if name in ('HardSphere', 'Exponential', 'HardCoreLennardJones') and not (type(p['high_value']) is float and p['high_value'] == 1e6):
        kw['high_value'] = p['high_value']
    if name == 'LennardJones':
        if p.get('rcut') is not None:
            kw['rcut'] = p['rcut']
        if p.get('shift'):
            kw['shift'] = True
    if name not in NAMES:
        raise ValueError(name)
    return getattr(P.potential, name)(**kw)


def magnitude(name, p, r, sigma):
    """size of the terms that are added in the documented formula (scale for the rounding tolerance)"""
    with np.errstate(all='ignore'):
        if name == 'HardSphere':
            return np.full(len(r), 1.0)
        if name == 'Exponential':
            return np.abs(p['epsilon'] * np.exp(-(r - sigma) / p['alpha'])) * (1.0 + np.abs(r - sigma) / p['alpha']) + 1e-300
        x = (sigma / r) ** 6
        if name == 'HardCoreLennardJones':
            return np.abs(p['epsilon']) * (x * x + 2 * x) * 8
        m = 4 * np.abs(p['epsilon']) * (x * x + x) * 8
        if name == 'WeeksChandlerAndersen':
            return m + np.abs(p['epsilon'])
        if p.get('rcut') is not None and p.get('shift'):
            xc = (sigma / p['rcut']) ** 6
            m = m + 4 * np.abs(p['epsilon']) * (xc * xc + xc) * 8
        return m


def params_strategy(name):
    # python ints are valid parameter values too (the docstring examples write high_value=10**6)
    eps_pm = st.one_of(st.builds(lambda s, m: s * m, st.sampled_from([-1.0, 1.0]), specs.logfloat(-3, 1, 6)), st.sampled_from([1, -1, 2]))
    eps_pos = st.one_of(specs.logfloat(-3, 1, 6), specs.logfloat(-3, 1, 6), st.sampled_from([1, 2]))
    high = st.sampled_from([1e2, 1e6, 1e12, 10 ** 6, 100])
    if name == 'HardSphere':
        return st.fixed_dictionaries({'high_value': high})
    if name == 'Exponential':
        return st.fixed_dictionaries({'epsilon': eps_pm, 'alpha': specs.logfloat(-1.3, 0.7, 5), 'high_value': high})
    if name == 'HardCoreLennardJones':
        return st.fixed_dictionaries({'epsilon': eps_pm, 'high_value': high})
    if name == 'LennardJones':
        return st.fixed_dictionaries({'epsilon': eps_pos, 'rcut_f': st.one_of(st.none(), specs.fl(1.0, 5.0, 5), st.sampled_from([2.5, 1.0, 2.0 ** (1.0 / 6.0)])),
                                      'shift': st.booleans()})
    return st.fixed_dictionaries({'epsilon': eps_pos})


def resolve(name, p, sigma):
    """spec params -> constructor params (rcut is stored as a factor of sigma)"""
    q = dict(p)
    if name == 'LennardJones':
        f = q.pop('rcut_f', None)
        q['rcut'] = None if f is None else float('%.6g' % (f * sigma))
    return q


def values_spec():
    grid = st.one_of(
        st.builds(lambda n, dr: {'kind': 'uniform', 'n': n, 'dr': dr}, st.integers(2, 200), st.sampled_from(specs.DECIMAL_SPACINGS)),
        st.builds(lambda r0, steps: {'kind': 'steps', 'r0': r0, 'steps': steps}, specs.fl(0.05, 2.0), st.lists(specs.fl(0.005, 0.7), min_size=1, max_size=40)))
    sigma = st.one_of(st.builds(lambda i: {'on': i}, st.integers(0, 400)),
                      st.builds(lambda i, f: {'between': i, 'frac': f}, st.integers(0, 400), specs.fl(0.05, 0.95, 4)),
                      specs.fl(0.3, 6.0, 5).map(lambda v: {'at': v}))
    return st.sampled_from(NAMES).flatmap(lambda name: st.fixed_dictionaries({
        'name': st.just(name), 'p': params_strategy(name), 'grid': grid, 'sigma': sigma, 'sub_seed': st.integers(0, 2 ** 31 - 1)}))


def grid_of(g):
    if g['kind'] == 'uniform':
        return np.arange(1, g['n'] + 1) * g['dr']
    return g['r0'] + np.concatenate([[0.0], np.cumsum(np.asarray(g['steps'], dtype=float))])


def sigma_of(s, r):
    if 'on' in s:
        return float(r[s['on'] % len(r)])
    if 'between' in s:
        i = s['between'] % max(1, len(r) - 1)
        j = min(i + 1, len(r) - 1)
        return float(r[i] + s['frac'] * (r[j] - r[i]))
    return float(s['at'])


def compare_values(name, p, r, sigma, u, out, sig, where):
    """documented formula at every judged point"""
    want, judged = O.potential(name, p, r, sigma)
    mag = magnitude(name, p, r, sigma)
    u = np.asarray(u, dtype=float)
    if u.shape != r.shape:
        out.fail(sig + name + '/result-shape', '%s: result shape %s for r of shape %s' % (where, u.shape, r.shape))
        return False
    ok = O.same(u, want, mag) | ~judged
    if not np.all(ok):
        i = int(np.flatnonzero(~ok)[0])
        out.fail(sig + name + '/formula', '%s: u(r=%r) = %r, documented formula gives %r (sigma=%r, params %s)' % (
            where, float(r[i]), float(u[i]), float(want[i]), sigma, p))
        return False
    return True


class Values(Sub):
    name = 'values'
    doc = 'bare potential objects vs documented formulas, cut/shift/WCA rules, elementwise-ness, repeatability, purity'
    budget = {'quick': 1600, 'thorough': 160000}

    def strategy(self, tier):
        return values_spec()

    def check(self, spec):
        out = Outcome()
        sig = PID + '/values/'
        name = spec['name']
        r = grid_of(spec['grid'])
        sigma = sigma_of(spec['sigma'], r)
        p = resolve(name, spec['p'], sigma)
        pot = make_potential(name, p, sigma)
        r_before = r.tobytes()
        with np.errstate(all='ignore'):
            u = np.asarray(pot.calculate(r))
            u2 = np.asarray(pot.calculate(r))
        out.label('pot=' + name, 'grid=' + spec['grid']['kind'], 'sigma=' + sorted(spec['sigma'])[0])
        out.nontrivial = bool(np.any(r <= sigma) and np.any(r >= sigma + O.BAND))
        if r.tobytes() != r_before:
            out.fail(sig + name + '/modifies-r', 'calculate(r) modified its argument')
            return out
        if u.shape != r.shape or u.tobytes() != u2.tobytes():
            out.fail(sig + name + '/not-repeatable', 'two calls of calculate(r) differ')
            return out
        if not compare_values(name, p, r, sigma, u, out, sig, 'calculate(r)'):
            return out
        # explicit statements of the property about cut-offs
        if name == 'LennardJones' and p['rcut'] is not None:
            rc = p['rcut']
            if np.any(u[r > rc] != 0.0):
                out.fail(sig + 'LennardJones/nonzero-beyond-rcut', 'u != 0 at some r > rcut=%r' % rc)
            if p['shift'] and np.any(r <= rc):
                i = int(np.flatnonzero(r <= rc)[-1])
                x = (sigma / r[i]) ** 6
                lip = 4 * abs(p['epsilon']) * (12 * x * x + 6 * x) / r[i]
                bound = lip * (rc - r[i]) + 1e-12 * magnitude(name, p, r[i:i + 1], sigma)[0]
                if abs(u[i]) > bound:
                    out.fail(sig + 'LennardJones/discontinuous-at-rcut', 'shifted LJ: |u(%r)|=%r exceeds Lipschitz bound %r towards rcut=%r' % (
                        float(r[i]), float(u[i]), bound, rc))
        if name == 'WeeksChandlerAndersen':
            rc = sigma * 2.0 ** (1.0 / 6.0)
            if np.any(u[r > rc * (1 + 4 * EPS)] != 0.0):
                out.fail(sig + 'WCA/nonzero-beyond-minimum', 'WCA != 0 beyond 2^(1/6) sigma')
            if np.any(u < -16 * EPS * abs(p['epsilon'])):
                out.fail(sig + 'WCA/negative', 'WCA potential negative: min %r' % float(np.min(u)))
        # r handed over as a strided view of a longer buffer: identical values, buffer untouched
        buf = np.empty(2 * len(r))
        buf[0::2] = r
        buf[1::2] = -1.0
        with np.errstate(all='ignore'):
            uv = np.asarray(make_potential(name, p, sigma).calculate(buf[0::2]))
        if uv.shape != u.shape or not np.array_equal(uv, u, equal_nan=True):
            out.fail(sig + name + '/depends-on-memory-layout', 'calculate(r) gives different values for a strided view of r than for a contiguous array')
        if not (np.array_equal(buf[0::2], r) and np.all(buf[1::2] == -1.0)):
            out.fail(sig + name + '/modifies-r', 'calculate(r) wrote into the buffer behind a strided view of r')
        # write-protected r; integer-typed r (separations that happen to be whole numbers, e.g. np.arange(1, 6))
        ro = r.copy()
        ro.setflags(write=False)
        try:
            with np.errstate(all='ignore'):
                ur = np.asarray(make_potential(name, p, sigma).calculate(ro))
            if ur.shape != u.shape or not np.array_equal(ur, u, equal_nan=True):
                out.fail(sig + name + '/depends-on-memory-layout', 'calculate(r) gives different values for a write-protected r')
        except (ValueError, TypeError) as exc:
            out.fail(sig + name + '/needs-writable-r', 'calculate(r) raised %s: %s for a write-protected r' % (type(exc).__name__, exc))
        ri = np.arange(1, 7, dtype=np.int64)
        try:
            with np.errstate(all='ignore'):
                ui = np.asarray(make_potential(name, p, sigma).calculate(ri), dtype=float)
                uf = np.asarray(make_potential(name, p, sigma).calculate(ri.astype(float)), dtype=float)
            if ui.shape != uf.shape or not np.array_equal(ui, uf, equal_nan=True):
                out.fail(sig + name + '/depends-on-dtype', 'calculate(r) gives different values for integer-typed r than for the same separations as floats',
                         got=ui.tolist(), want=uf.tolist())
        except (ValueError, TypeError) as exc:
            out.fail(sig + name + '/depends-on-dtype', 'calculate(r) raised %s: %s for integer-typed r' % (type(exc).__name__, exc))
        # elementwise: a sub-sample / permutation gives the same values at the same points
        g = np.random.Generator(np.random.PCG64(spec['sub_seed']))
        idx = g.permutation(len(r))[:max(1, len(r) // 2)]
        with np.errstate(all='ignore'):
            us = np.asarray(make_potential(name, p, sigma).calculate(r[idx].copy()))
        if us.shape != idx.shape or us.tobytes() != u[idx].tobytes():
            out.fail(sig + name + '/not-elementwise', 'value at r_i depends on which other r are in the array')
        return out


# --------------------------------------------------------------------------- system level

def system_spec():
    def diam(dr):
        return st.one_of(
            st.integers(3, 60).map(lambda m: {'how': 'product', 'm': m}),
            st.integers(3, 60).map(lambda m: {'how': 'literal', 'm': m}),
            st.builds(lambda m, f: {'how': 'off', 'm': m, 'frac': f}, st.integers(3, 60), specs.fl(0.05, 0.95, 4)))

    def body(ntypes, dr):
        npairs = ntypes * (ntypes + 1) // 2
        pot = st.sampled_from(NAMES).flatmap(lambda name: st.fixed_dictionaries({
            'name': st.just(name), 'p': params_strategy(name),
            'sigma': st.one_of(st.none(), st.none(), diam(dr))}))
        return st.fixed_dictionaries({
            'ntypes': st.just(ntypes), 'dr': st.just(dr), 'length': st.sampled_from([128, 200, 256, 100]),
            'kT': st.one_of(st.just(1.0), specs.logfloat(-0.5, 0.7, 4)),
            'diameters': st.lists(diam(dr), min_size=ntypes, max_size=ntypes),
            'potentials': st.lists(pot, min_size=npairs, max_size=npairs),
            'flag': st.lists(st.booleans(), min_size=npairs, max_size=npairs)})
    return st.tuples(st.integers(1, 3), st.sampled_from([0.1, 0.05, 0.075, 0.2, 0.025, 0.3, 0.15, 0.04, 0.06, 0.07, 0.35, 0.11, 0.09, 0.125, 0.25])
                     ).flatmap(lambda t: body(*t))


def length_of(d, dr):
    if d['how'] == 'product':
        return d['m'] * dr
    if d['how'] == 'literal':
        return float('%.10g' % (d['m'] * dr))
    return float('%.10g' % ((d['m'] + d['frac']) * dr))


class SystemLevel(Sub):
    name = 'system'
    doc = 'potentials as wired by createPRISM: value, sigma defaulting, System untouched, contact rule for every pair'
    budget = {'quick': 400, 'thorough': 32000}

    def strategy(self, tier):
        return system_spec()

    def check(self, spec):
        P = target()
        out = Outcome()
        sig = PID + '/system/'
        n = spec['ntypes']
        types = ['A', 'B', 'C'][:n]
        dr = spec['dr']
        s = P.System(types, kT=spec['kT'])
        s.domain = P.Domain(length=spec['length'], dr=dr)
        r = s.domain.r
        if len(r) != spec['length']:
            out.skipped = 'domain-grid-miscount'
            return out
        dia = {}
        for t, d in zip(types, spec['diameters']):
            dia[t] = length_of(d, dr)
            s.diameter[t] = dia[t]
            s.density[t] = 0.1
        pairs = [(types[i], types[j]) for i in range(n) for j in range(i, n)]
        info = {}
        for (a, b), ps, flag in zip(pairs, spec['potentials'], spec['flag']):
            sigma_exp = None if ps['sigma'] is None else length_of(ps['sigma'], dr)
            sigma_eff = sigma_exp if sigma_exp is not None else (dia[a] + dia[b]) / 2.0
            p = resolve(ps['name'], ps['p'], sigma_eff)
            s.potential[a, b] = make_potential(ps['name'], p, sigma_exp)
            s.closure[a, b] = P.closure.PercusYevick(apply_hard_core=flag)
            s.omega[a, b] = P.omega.SingleSite() if a == b else P.omega.NoIntra()
            info[a, b] = (ps['name'], p, sigma_exp, sigma_eff)
        with warnings.catch_warnings():
            warnings.simplefilter('ignore')
            with np.errstate(all='ignore'):
                pr = s.createPRISM()
        on_grid_any = False
        for (a, b), (name, p, sigma_exp, sigma_eff) in info.items():
            for key in ((a, b), (b, a)):
                u = np.asarray(pr.sys.closure[key].potential, dtype=float) * spec['kT']
                q = dict(p)
                # the wired value is formula/kT; multiplying back by kT costs one rounding
                want, judged = O.potential(name, q, r, sigma_eff)
                mag = magnitude(name, q, r, sigma_eff) + np.abs(want)
                ok = O.same(u, want, mag, rel=4e-12) | ~judged
                if u.shape != r.shape or not np.all(ok):
                    i = int(np.flatnonzero(~ok)[0]) if u.shape == r.shape else -1
                    out.fail(sig + 'wired-potential-differs', 'pair %s: closure.potential*kT at r=%r is %r, formula with sigma=%r (%s) gives %r [%s %s]' % (
                        key, float(r[i]), float(u[i]) if i >= 0 else None, sigma_eff, 'explicit' if sigma_exp is not None else 'mean diameter',
                        float(want[i]), name, p))
                    break
                # contact rule
                d = np.abs(r - sigma_eff)
                i = int(np.argmin(d))
                if name in HARD and d[i] < O.BAND:
                    on_grid_any = True
                    cls = 'exact' if r[i] == sigma_eff else ('above' if r[i] > sigma_eff else 'below')
                    out.label('contact-noise=' + cls)
                    if u[i] != p['high_value'] and abs(u[i] - p['high_value']) > 4e-12 * p['high_value']:
                        out.fail(sig + 'contact-point-outside-core',
                                 'pair %s (%s): sigma=%r is on the grid (r[%d]=%r, |r-sigma|<1e-6) but that grid point carries u=%r, not the overlap value %r' % (
                                     key, name, sigma_eff, i, float(r[i]), float(u[i]), p['high_value']),
                                 dr=dr, noise=cls)
                        break
            # the System's own potential object is untouched
            own = s.potential[a, b].sigma
            if (own is None) != (sigma_exp is None) or (own is not None and own != sigma_exp):
                out.fail(sig + 'system-potential-modified', 'createPRISM changed sigma of the System\'s own %s potential for pair %s: %r -> %r' % (
                    name, (a, b), sigma_exp, own))
            out.label('pot=' + name, 'sigma=' + ('explicit' if sigma_exp is not None else 'default'))
        out.nontrivial = on_grid_any
        out.label('ntypes=%d' % n)
        return out


class ContactScan(Sub):
    name = 'contact-scan'
    kind = 'enum'
    doc = 'exhaustive: sigma = m*dr for m=1..400 (quick: 1..120) x 10 decimal spacings x 3 ways of writing sigma x 3 hard-core potentials'
    budget = {'quick': 0, 'thorough': 0}
    SPACINGS = [0.1, 0.05, 0.075, 0.2, 0.025, 0.3, 0.15, 0.04, 0.06, 0.07]

    def enumerate(self, tier):
        top = 120 if tier == 'quick' else 400
        for dr in self.SPACINGS:
            for how in ('product', 'literal', 'mean'):
                yield {'dr': dr, 'how': how, 'top': top}

    def check(self, spec):
        """one spec = one (dr, way of writing sigma); all m are scanned inside (a PRISM object per m would be wasteful: the rule is
        about potential(r_grid) at sigma, which is what createPRISM evaluates)"""
        P = target()
        out = Outcome()
        dr, top = spec['dr'], spec['top']
        dom = P.Domain(length=top + 8, dr=dr)
        r = dom.r
        if len(r) != top + 8:
            out.skipped = 'domain-grid-miscount'
            return out
        bad = []
        for m in range(1, top + 1):
            if spec['how'] == 'product':
                d1 = d2 = m * dr
            elif spec['how'] == 'literal':
                d1 = d2 = float('%.10g' % (m * dr))
            else:
                if m < 2:
                    continue
                d1, d2 = float('%.10g' % ((m - 1) * dr)), float('%.10g' % ((m + 1) * dr))
            s = P.System(['A', 'B'], kT=1.0)
            s.domain = dom
            s.diameter['A'] = d1
            s.diameter['B'] = d2
            s.density[['A', 'B']] = 0.1
            s.potential['A', 'A'] = P.potential.HardSphere()
            s.potential['B', 'B'] = P.potential.HardCoreLennardJones(epsilon=0.5)
            s.potential['A', 'B'] = P.potential.Exponential(epsilon=0.5, alpha=0.5)
            s.closure[['A', 'B'], ['A', 'B']] = P.closure.PercusYevick()
            s.omega[['A', 'B'], ['A', 'B']] = P.omega.NoIntra()
            s.omega['A', 'A'] = P.omega.SingleSite()
            s.omega['B', 'B'] = P.omega.SingleSite()
            with warnings.catch_warnings():
                warnings.simplefilter('ignore')
                with np.errstate(all='ignore'):
                    pr = s.createPRISM()
            for key, sg in ((('A', 'A'), d1), (('B', 'B'), d2), (('A', 'B'), (d1 + d2) / 2.0)):
                i = int(np.argmin(np.abs(r - sg)))
                if abs(r[i] - sg) < O.BAND and pr.sys.closure[key].potential[i] != 1e6:
                    bad.append((m, key, sg, float(r[i])))
        out.nontrivial = True
        out.info = {'sigmas_scanned': top, 'violating': len(bad)}
        if bad:
            m, key, sg, ri = bad[0]
            out.fail(PID + '/system/contact-point-outside-core',
                     'dr=%r, sigma written as %s: %d of %d on-grid sigmas have their contact grid point outside the core, first: pair %s sigma=%r r_i=%r' % (
                         dr, spec['how'], len(bad), top, key, sg, ri), first=bad[:5])
        return out


class Reuse(Sub):
    name = 'reuse'
    doc = 'one potential object re-used: sigma re-assigned (as createPRISM does) and other grids evaluated between calls; every call must equal a fresh object'
    budget = {'quick': 600, 'thorough': 32000}

    def strategy(self, tier):
        base = values_spec()
        step = st.fixed_dictionaries({'grid': base.map(lambda s: s['grid']), 'sigma': base.map(lambda s: s['sigma']), 'same_grid': st.booleans()})
        return st.sampled_from(NAMES).flatmap(lambda name: st.fixed_dictionaries({
            'name': st.just(name), 'p': params_strategy(name), 'steps': st.lists(step, min_size=2, max_size=4)}))

    def check(self, spec):
        out = Outcome()
        sig = PID + '/reuse/'
        name = spec['name']
        pot = None
        r_prev = None
        changed = False
        for i, stp in enumerate(spec['steps']):
            r = r_prev if (stp['same_grid'] and r_prev is not None) else grid_of(stp['grid'])
            sigma = sigma_of(stp['sigma'], r)
            p = resolve(name, spec['p'], sigma_of(spec['steps'][0]['sigma'], grid_of(spec['steps'][0]['grid'])))
            if pot is None:
                pot = make_potential(name, p, sigma)
            else:
                if pot.sigma != sigma:
                    changed = True
                pot.sigma = sigma
            fresh = make_potential(name, p, sigma)
            with np.errstate(all='ignore'):
                u = np.asarray(pot.calculate(r.copy()))
                uf = np.asarray(fresh.calculate(r.copy()))
            if u.shape != uf.shape or not np.array_equal(u, uf, equal_nan=True):
                out.fail(sig + name + '/result-depends-on-earlier-calls', '%s: call %d on a re-used potential object (sigma re-assigned / other grid) differs from a fresh '
                         'object with the same parameters' % (name, i + 1), step=i)
                break
            r_prev = r
        out.nontrivial = changed
        out.label('pot=' + name, 'sigma-reassigned' if changed else 'sigma-kept')
        return out


SUBS = [Values(), SystemLevel(), ContactScan(), Reuse()]
