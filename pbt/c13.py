"""C13 -- MatrixArray arithmetic matches per-matrix linear algebra without aliasing."""
import itertools
import operator

import numpy as np
from hypothesis import strategies as st

from . import specs
from .core import Sub, Outcome, target

PID = 'C13'
SHARDS = {'quick': 4, 'thorough': 16}
RULE = ('Generated MatrixArrays (rank 1-5, length 1-64, seeded data, divisors bounded away from 0, diagonally dominant '
        'matrices for invert) x operator {+,-,*,/} x {in-place, out-of-place} x operand kind {scalar, ndarray of three '
        'broadcastable shapes, MatrixArray of equal length, length-1 MatrixArray}; dot / @ / @= / invert; named pair access; '
        'short programs of in-place ops mirrored on plain ndarrays. Oracle = explicit Python loop over the matrices. '
        'All 9 space-flag pairs x 12 binary operations are enumerated exhaustively. Non-trivial = rank>=2, length>=2 and '
        'non-zero off-diagonal data; distinct = spec hash.')
ASSUMPTIONS = ['elementwise results are compared bit-for-bit with numpy applied matrix by matrix; dot within 8*rank*eps*(|A||B|); invert within 64*eps*cond',
               'result space flag of mixed NonSpatial/spatial operations is not part of the property and is not judged']
EPS = np.finfo(float).eps
OPS = {'add': operator.add, 'sub': operator.sub, 'mul': operator.mul, 'truediv': operator.truediv}
IOPS = {'add': operator.iadd, 'sub': operator.isub, 'mul': operator.imul, 'truediv': operator.itruediv}
SPACES = ['Real', 'Fourier', 'NonSpatial']


def rnd(seed, shape, lo=-10.0, hi=10.0, away=None):
    g = np.random.Generator(np.random.PCG64(int(seed)))
    a = g.uniform(lo, hi, size=shape)
    if away is not None:
        a = np.where(np.abs(a) < away, np.sign(a + 1e-300) * away + a, a)
    return a


def make(seed, length, rank, space, sym=False, away=None, types=None):
    P = target()
    d = rnd(seed, (length, rank, rank), away=away)
    if sym:
        d = 0.5 * (d + d.transpose(0, 2, 1))
    # documented defaults (space=Space.Real, types=None) are exercised by leaving the arguments out
    kw = {}
    if space != 'Real':
        kw['space'] = getattr(P.Space, space)
    if types is not None:
        kw['types'] = types
    return P.MatrixArray(length=length, rank=rank, data=d, **kw)


def operand(spec, length, rank):
    """returns (object handed to the operator, ndarray it broadcasts as, underlying buffer or None)"""
    P = target()
    kind = spec['kind']
    away = 0.5
    if kind == 'scalar':
        v = spec['value']
        return v, np.asarray(v, dtype=float), None
    if kind == 'npscalar':
        v = np.float64(spec['value'])
        return v, np.asarray(v), None
    if kind == 'arr-rr':
        a = rnd(spec['seed'], (rank, rank), away=away)
        return a, a, a
    if kind == 'arr-l11':
        a = rnd(spec['seed'], (length, 1, 1), away=away)
        return a, a, a
    if kind == 'arr-full':
        a = rnd(spec['seed'], (length, rank, rank), away=away)
        return a, a, a
    if kind == 'ma-same':
        m = make(spec['seed'], length, rank, spec['space'], away=away)
        return m, m.data, m.data
    if kind == 'ma-one':
        m = make(spec['seed'], 1, rank, spec['space'], away=away)
        return m, m.data, m.data
    raise ValueError(kind)


def loop_apply(fn, A, B):
    """the same operation applied matrix by matrix (B already an ndarray broadcastable against A)"""
    out = np.empty_like(A)
    Bb = np.broadcast_to(B, A.shape)
    for l in range(A.shape[0]):
        out[l] = fn(A[l], Bb[l])
    return out


def compatible(P, s1, s2):
    return s1 == s2 or 'NonSpatial' in (s1, s2)


class Binary(Sub):
    name = 'binary'
    doc = 'elementwise + - * / with every operand kind, in place and out of place, vs per-matrix numpy loop; aliasing'
    budget = {'quick': 1600, 'thorough': 256000}

    def strategy(self, tier):
        seed = st.integers(0, 2 ** 31 - 1)
        sp = st.sampled_from(SPACES)
        val = st.one_of(specs.signed(-3, 3).filter(lambda v: abs(v) >= 1e-3), st.integers(-9, 9).filter(lambda v: v != 0))
        opd = st.one_of(
            st.builds(lambda v: {'kind': 'scalar', 'value': v}, val),
            st.builds(lambda v: {'kind': 'npscalar', 'value': float(v)}, val),
            st.builds(lambda k, s: {'kind': k, 'seed': s}, st.sampled_from(['arr-rr', 'arr-l11', 'arr-full']), seed),
            st.builds(lambda k, s, p: {'kind': k, 'seed': s, 'space': p}, st.sampled_from(['ma-same', 'ma-one', 'ma-same']), seed, sp),
            st.just({'kind': 'ma-self'}))
        return st.fixed_dictionaries({'rank': st.integers(1, 5), 'length': st.integers(1, 64), 'seed': seed, 'space': sp,
                                      'op': st.sampled_from(sorted(OPS)), 'inplace': st.booleans(), 'other': opd})

    def check(self, spec):
        P = target()
        out = Outcome()
        sig = PID + '/binary/'
        L, R = spec['length'], spec['rank']
        A = make(spec['seed'], L, R, spec['space'])
        A0 = A.data.copy()
        bufA = A.data
        if spec['other']['kind'] == 'ma-self':
            B, Barr, Bbuf = A, A0.copy(), None          # A op A, A op= A: the right operand is the left one
        else:
            B, Barr, Bbuf = operand(spec['other'], L, R)
        B0 = None if Bbuf is None else Bbuf.copy()
        ospace = spec['other'].get('space')
        fn = (IOPS if spec['inplace'] else OPS)[spec['op']]
        expect_refuse = ospace is not None and not compatible(P, spec['space'], ospace)
        try:
            res = fn(A, B)
            refused = False
        except AssertionError:
            refused = True
        if refused != expect_refuse:
            out.fail(sig + ('space-not-refused' if expect_refuse else 'space-wrongly-refused'),
                     '%s%s between %s and %s: refused=%s' % (spec['op'], '(in place)' if spec['inplace'] else '', spec['space'], ospace, refused))
            return out
        if refused:
            if not np.array_equal(A.data, A0) or (B0 is not None and not np.array_equal(Bbuf, B0)):
                out.fail(sig + 'refusal-modified-operand', 'a refused operation modified an operand')
            out.label('refused')
            out.nontrivial = R >= 2 and L >= 2
            return out
        exp = loop_apply(OPS[spec['op']], A0, Barr)
        if not isinstance(res, P.MatrixArray):
            out.fail(sig + 'result-type', 'result is %s, not a MatrixArray' % type(res).__name__)
            return out
        if res.data.shape != exp.shape or not np.array_equal(res.data, exp):
            out.fail(sig + 'value/' + spec['op'] + ('-inplace' if spec['inplace'] else ''),
                     'result differs from the operation applied matrix by matrix (operand kind %s)' % spec['other']['kind'],
                     worst=float(np.max(np.abs(res.data - exp))) if res.data.shape == exp.shape else 'shape %s' % (res.data.shape,))
        if B0 is not None and not np.array_equal(Bbuf, B0):
            out.fail(sig + 'right-operand-modified', 'the right operand was modified')
        if spec['inplace']:
            if res is not A:
                out.fail(sig + 'inplace-returns-other-object', 'in-place operator did not return the left operand')
            if not np.array_equal(A.data, exp):
                out.fail(sig + 'inplace-left-not-updated', 'left operand does not hold the result after an in-place operation')
        else:
            if res is A or np.shares_memory(res.data, bufA) or (Bbuf is not None and np.shares_memory(res.data, Bbuf)):
                out.fail(sig + 'result-aliases-operand', 'out-of-place result shares memory with an operand')
            if not np.array_equal(A.data, A0):
                out.fail(sig + 'left-operand-modified', 'out-of-place operation modified the left operand')
            if res.rank != R or res.length != L or list(res.types) != list(A.types):
                out.fail(sig + 'result-metadata', 'rank/length/types of the result differ from the left operand')
        out.nontrivial = R >= 2 and L >= 2
        out.label('op=' + spec['op'], 'inplace' if spec['inplace'] else 'outofplace', 'kind=' + spec['other']['kind'])
        return out


class SpaceMatrix(Sub):
    name = 'space-pairs'
    kind = 'enum'
    doc = 'exhaustive: 9 space-flag pairs x {+,-,*,/ in/out of place, dot, dot(inplace), @, @=}: Real x Fourier refused, others accepted'
    budget = {'quick': 0, 'thorough': 0}

    def enumerate(self, tier):
        names = ['add', 'sub', 'mul', 'truediv', 'iadd', 'isub', 'imul', 'itruediv', 'dot', 'dot-inplace', 'matmul', 'imatmul']
        for s1, s2, op, rank in itertools.product(SPACES, SPACES, names, (1, 3)):
            yield {'s1': s1, 's2': s2, 'op': op, 'rank': rank}

    def check(self, spec):
        P = target()
        out = Outcome()
        sig = PID + '/space-pairs/'
        R = spec['rank']
        A = make(11, 4, R, spec['s1'], away=0.5)
        B = make(12, 4, R, spec['s2'], away=0.5)
        A0, B0 = A.data.copy(), B.data.copy()
        op = spec['op']
        fns = {'add': lambda: A + B, 'sub': lambda: A - B, 'mul': lambda: A * B, 'truediv': lambda: A / B,
               'iadd': lambda: operator.iadd(A, B), 'isub': lambda: operator.isub(A, B), 'imul': lambda: operator.imul(A, B),
               'itruediv': lambda: operator.itruediv(A, B), 'dot': lambda: A.dot(B), 'dot-inplace': lambda: A.dot(B, inplace=True),
               'matmul': lambda: A @ B, 'imatmul': lambda: operator.imatmul(A, B)}
        try:
            fns[op]()
            refused = False
        except AssertionError:
            refused = True
        expect = not compatible(P, spec['s1'], spec['s2'])
        if refused != expect:
            out.fail(sig + ('not-refused/' if expect else 'wrongly-refused/') + op, '%s between %s and %s: refused=%s' % (op, spec['s1'], spec['s2'], refused))
        if refused and not (np.array_equal(A.data, A0) and np.array_equal(B.data, B0)):
            out.fail(sig + 'refusal-modified-operand', 'a refused %s modified an operand' % op)
        out.nontrivial = True
        return out


class DotInvert(Sub):
    name = 'dot-invert'
    doc = 'dot / @ / @= / invert (in and out of place) vs per-matrix np.matmul / np.linalg.inv; A.dot(A.invert()) = I'
    budget = {'quick': 1200, 'thorough': 192000}

    def strategy(self, tier):
        seed = st.integers(0, 2 ** 31 - 1)
        return st.fixed_dictionaries({'rank': st.integers(1, 5), 'length': st.integers(1, 64), 'seedA': seed, 'seedB': seed,
                                      'space': st.sampled_from(SPACES), 'how': st.sampled_from(['dot', 'dot-inplace', 'matmul', 'imatmul']),
                                      'inv_inplace': st.booleans(), 'dom': specs.fl(1.5, 6.0), 'scale': specs.logfloat(-3, 3),
                                      'right': st.sampled_from(['other', 'other', 'other', 'self', 'same-buffer']),
                                      # data written with integer literals (np.eye(dtype=int), np.arange ...): the inverse is still the real inverse
                                      'dtype': st.sampled_from(['float', 'float', 'float', 'int64', 'int32'])})

    def check(self, spec):
        P = target()
        out = Outcome()
        sig = PID + '/dot-invert/'
        out.label('invert-dtype=' + spec.get('dtype', 'float'))
        L, R = spec['length'], spec['rank']
        A = make(spec['seedA'], L, R, spec['space'])
        B = make(spec['seedB'], L, R, spec['space'])
        right = spec.get('right', 'other')
        if right == 'self':
            B = A                         # A.dot(A), A @= A
        elif right == 'same-buffer':
            B = P.MatrixArray(length=L, rank=R, data=A.data, space=A.space)     # a second MatrixArray on the same ndarray
            if not np.shares_memory(B.data, A.data):
                right = 'other'
        aliased = right != 'other'
        A0, B0 = A.data.copy(), B.data.copy()
        how = spec['how']
        if how == 'dot':
            res = A.dot(B)
        elif how == 'dot-inplace':
            res = A.dot(B, inplace=True)
        elif how == 'matmul':
            res = A @ B
        else:
            res = operator.imatmul(A, B)
        exp = np.empty_like(A0)
        bound = np.empty_like(A0)
        for l in range(L):
            exp[l] = A0[l] @ B0[l]
            bound[l] = np.abs(A0[l]) @ np.abs(B0[l])
        if res.data.shape != exp.shape or np.any(np.abs(res.data - exp) > 8 * R * EPS * bound):
            out.fail(sig + 'dot-value/' + how, 'dot result differs from per-matrix A[l] @ B[l] (order of factors / index contraction)')
        if not aliased and not np.array_equal(B.data, B0):
            out.fail(sig + 'right-operand-modified', 'dot modified its right operand')
        if how in ('dot-inplace', 'imatmul'):
            if res is not A or not np.array_equal(A.data, res.data):
                out.fail(sig + 'dot-inplace-identity', 'in-place dot did not update / return the left operand')
        else:
            if not np.array_equal(A.data, A0) or np.shares_memory(res.data, A.data) or np.shares_memory(res.data, B.data):
                out.fail(sig + 'dot-aliasing', 'out-of-place dot modified or aliases an operand')
        # invert on a diagonally dominant (well-conditioned) array
        g = rnd(spec['seedA'] + 1, (L, R, R), -1.0, 1.0)
        M = (g + np.eye(R)[None, :, :] * (R * spec['dom'])) * spec['scale']
        if spec.get('dtype', 'float') != 'float':
            M = (np.rint(3 * g) + np.eye(R)[None, :, :] * (3 * R + 1 + int(spec['dom']))).astype(spec['dtype'])
        MA = P.MatrixArray(length=L, rank=R, data=M.copy(), space=getattr(P.Space, spec['space']))
        # out of place is the documented default: written by leaving the argument out
        inv = MA.invert(inplace=True) if spec['inv_inplace'] else MA.invert()
        if inv.data.shape != M.shape:
            out.fail(sig + 'invert-shape', 'invert changed the shape')
            return out
        worst = 0.0
        for l in range(L):
            ref = np.linalg.inv(M[l])
            cond = np.linalg.cond(M[l])
            tol = 64 * EPS * cond * np.max(np.abs(ref))
            if np.any(np.abs(inv.data[l] - ref) > tol):
                out.fail(sig + 'invert-value', 'invert differs from np.linalg.inv of matrix %d' % l)
                break
            prod = M[l] @ inv.data[l]
            if np.any(np.abs(prod - np.eye(R)) > 64 * EPS * cond * R):
                out.fail(sig + 'invert-identity', 'M . invert(M) is not the identity for matrix %d' % l)
                break
        if spec['inv_inplace']:
            if inv is not MA:
                out.fail(sig + 'invert-inplace-identity', 'invert(inplace=True) did not return self')
        else:
            if not np.array_equal(MA.data, M) or np.shares_memory(inv.data, MA.data):
                out.fail(sig + 'invert-aliasing', 'invert(inplace=False) modified or aliases the original')
            I = MA.dot(inv)
            eye = np.broadcast_to(np.eye(R), (L, R, R))
            if np.any(np.abs(I.data - eye) > 64 * EPS * 10 * R * R):
                out.fail(sig + 'invert-identity', 'A.dot(A.invert()) is not the identity')
        out.nontrivial = R >= 2 and L >= 2
        out.label('how=' + how, 'rank=%d' % R, 'right=' + right)
        return out


NAMES = ['A', 'B', 'C', 'poly', 'nano', 'solvent', 'X1']


class Named(Sub):
    name = 'named-access'
    doc = 'pair assignment / read by type names in both orders, unknown names -> ValueError, get_copy independence, default types'
    budget = {'quick': 800, 'thorough': 128000}

    def strategy(self, tier):
        seed = st.integers(0, 2 ** 31 - 1)
        return st.fixed_dictionaries({
            'types': st.one_of(st.none(), st.lists(st.sampled_from(NAMES), min_size=1, max_size=5, unique=True)),
            'rank_if_default': st.integers(1, 5), 'length': st.integers(1, 64), 'seed': seed,
            'i': st.integers(0, 4), 'j': st.integers(0, 4), 'val': st.one_of(specs.signed(-3, 3), seed.map(lambda s: {'seed': s})),
            'bad': st.sampled_from(['Z', 'a', '', 'AB', 'polymer', 0]), 'space': st.sampled_from(SPACES)})

    def check(self, spec):
        P = target()
        out = Outcome()
        sig = PID + '/named-access/'
        types = spec['types']
        R = len(types) if types else spec['rank_if_default']
        L = spec['length']
        M = make(spec['seed'], L, R, spec['space'], sym=True, types=list(types) if types else None)
        names = list(types) if types else list('ABCDE'[:R])
        if list(M.types) != names:
            out.fail(sig + 'default-types', 'types=%r expected %r' % (M.types, names))
            return out
        a, b = names[spec['i'] % R], names[spec['j'] % R]
        i, j = names.index(a), names.index(b)
        before = M.data.copy()
        val = spec['val']
        v = rnd(val['seed'], (L,)) if isinstance(val, dict) else val
        M[a, b] = v
        exp = before.copy()
        exp[:, i, j] = v
        exp[:, j, i] = v
        if not np.array_equal(M.data, exp):
            out.fail(sig + 'set-not-mirrored', 'M[%r,%r]=v did not write exactly the (a,b) and (b,a) entries' % (a, b))
        for x, y in ((a, b), (b, a)):
            got = M[x, y]
            if np.shape(got) != (L,) or not np.array_equal(got, exp[:, i, j]):
                out.fail(sig + 'get-order', 'reading M[%r,%r] does not return the assigned pair function' % (x, y))
        if not np.array_equal(M.get(i, j), exp[:, i, j]) or not np.array_equal(M.getMatrix(0), exp[0]):
            out.fail(sig + 'index-getters', 'get(i,j)/getMatrix disagree with the data')
        # index setters: setMatrix(l, m) replaces exactly matrix l (copying m), leaves the others and the caller's m alone
        l_ = (spec['i'] * 7 + spec['j']) % L
        mnew = rnd((val['seed'] if isinstance(val, dict) else 1) + 5, (R, R))
        mnew = mnew + mnew.T
        m_keep = mnew.copy()
        exp2 = M.data.copy()
        exp2[l_] = mnew
        M.setMatrix(l_, mnew)
        if not np.array_equal(M.data, exp2):
            out.fail(sig + 'setMatrix', 'setMatrix(%d, m) did not replace exactly matrix %d' % (l_, l_))
        mnew += 1.0
        if not np.array_equal(M.data, exp2) or np.shares_memory(M.data, mnew):
            out.fail(sig + 'setMatrix-aliases-caller', 'a later change of the caller\'s matrix leaked into the MatrixArray after setMatrix')
        if not np.array_equal(M.getMatrix(l_), m_keep):
            out.fail(sig + 'index-getters', 'getMatrix does not return what setMatrix stored')
        M.setMatrix(l_, exp[l_])
        # iterpairs visits the upper triangle in order with views of the data
        seen = [(ij, t) for ij, t, pair in M.iterpairs()]
        want = [((p, q), (names[p], names[q])) for p in range(R) for q in range(R) if p <= q]
        if seen != want:
            out.fail(sig + 'iterpairs-order', 'iterpairs order %r expected %r' % (seen, want))
        bad = spec['bad']
        if bad not in names:
            for key in ((bad, a), (a, bad)):
                for mode in ('get', 'set'):
                    try:
                        if mode == 'get':
                            M[key]
                        else:
                            M[key] = 1.0
                        out.fail(sig + 'unknown-name-accepted', '%s with unknown type %r did not raise' % (mode, bad))
                    except ValueError:
                        pass
                    except Exception as exc:  # KeyError, TypeError ...
                        out.fail(sig + 'unknown-name-wrong-exception', '%s with unknown type %r raised %s, not ValueError' % (mode, bad, type(exc).__name__))
            if not np.array_equal(M.data, exp):
                out.fail(sig + 'failed-access-modified', 'a rejected access modified the array')
        C = M.get_copy()
        if (not isinstance(C, P.MatrixArray) or not np.array_equal(C.data, M.data) or C.space != M.space
                or list(C.types) != list(M.types) or C.rank != M.rank or C.length != M.length):
            out.fail(sig + 'get_copy-differs', 'get_copy is not an equal MatrixArray')
        elif np.shares_memory(C.data, M.data):
            out.fail(sig + 'get_copy-aliases', 'get_copy shares memory with the original')
        else:
            C[a, b] = 123.0
            C *= 2.0
            if not np.array_equal(M.data, exp):
                out.fail(sig + 'get_copy-aliases', 'modifying the copy changed the original')
            snap = C.data.copy()
            M += 1.0
            if not np.array_equal(C.data, snap):
                out.fail(sig + 'get_copy-aliases', 'modifying the original changed the copy')
        out.nontrivial = R >= 2 and L >= 2 and i != j
        out.label('custom-types' if types else 'default-types', 'offdiag' if i != j else 'diag')
        return out


class Program(Sub):
    name = 'program'
    doc = 'programs of <=8 in-place operations (+= -= *= /= with scalar/array/MatrixArray, named set, get_copy snapshots) mirrored on ndarrays'
    budget = {'quick': 600, 'thorough': 96000}

    def strategy(self, tier):
        seed = st.integers(0, 2 ** 31 - 1)
        step = st.one_of(
            st.builds(lambda o, v: {'do': o, 'kind': 'scalar', 'value': v}, st.sampled_from(sorted(IOPS)), specs.fl(0.25, 4.0)),
            st.builds(lambda o, k, s: {'do': o, 'kind': k, 'seed': s}, st.sampled_from(sorted(IOPS)),
                      st.sampled_from(['arr-rr', 'arr-l11', 'arr-full', 'ma-same', 'ma-one']), seed),
            st.builds(lambda i, j, s: {'do': 'set', 'i': i, 'j': j, 'seed': s}, st.integers(0, 4), st.integers(0, 4), seed),
            st.just({'do': 'snapshot'}),
            st.just({'do': 'invert'}),
            st.builds(lambda s: {'do': 'dot', 'seed': s}, seed),
            st.builds(lambda o, k, s, sw: {'do': 'oop', 'op': o, 'kind': k, 'seed': s, 'value': 1.5, 'swap': sw}, st.sampled_from(sorted(IOPS)),
                      st.sampled_from(['ma-same', 'ma-same', 'ma-one', 'arr-full', 'scalar']), seed, st.booleans()))
        return st.fixed_dictionaries({'rank': st.integers(1, 5), 'length': st.integers(1, 32), 'seed': seed,
                                      'start': st.sampled_from(['random', 'random', 'identity']),
                                      'steps': st.lists(step, min_size=1, max_size=8)})

    def check(self, spec):
        P = target()
        out = Outcome()
        sig = PID + '/program/'
        L, R = spec['length'], spec['rank']
        if spec.get('start') == 'identity':
            # the subclass the library itself uses for I in (I - Omega C): it inherits every operator and setter
            A = P.IdentityMatrixArray(length=L, rank=R, space=P.Space.NonSpatial) if hasattr(P, 'IdentityMatrixArray') else None
            if A is None:
                from importlib import import_module
                A = import_module('pyPRISM.core.IdentityMatrixArray').IdentityMatrixArray(length=L, rank=R, space=P.Space.NonSpatial)
            want = np.zeros((L, R, R))
            for d in range(R):
                want[:, d, d] = 1.0
            if not np.array_equal(A.data, want):
                out.fail(sig + 'identity-not-identity', 'IdentityMatrixArray is not initialised with identity matrices')
        else:
            A = make(spec['seed'], L, R, 'NonSpatial', away=0.5)
        ref = A.data.copy()
        snaps = []
        exact = True
        for n, st_ in enumerate(spec['steps']):
            do = st_['do']
            if do in IOPS:
                s2 = dict(st_)
                s2['space'] = 'NonSpatial'
                B, Barr, Bbuf = operand(s2, L, R)
                if do == 'truediv' or True:
                    pass
                r = IOPS[do](A, B)
                if r is not A:
                    out.fail(sig + 'inplace-returns-other-object', 'step %d: in-place %s returned a different object' % (n, do))
                    A = r
                ref = loop_apply(OPS[do], ref, Barr)
            elif do == 'set':
                i, j = st_['i'] % R, st_['j'] % R
                v = rnd(st_['seed'], (L,), away=0.5)
                A[A.types[i], A.types[j]] = v
                ref[:, i, j] = v
                ref[:, j, i] = v
            elif do == 'oop':
                # an out-of-place operation in the middle of a history: must see the current contents and leave them alone
                s2 = dict(st_)
                s2['space'] = 'NonSpatial'
                B, Barr, Bbuf = operand(s2, L, R)
                before = A.data.copy()
                # the reference operand is the array's own current contents (bitwise), not the mirrored ndarray program: after
                # invert / dot the two agree only to rounding, which a division by a small entry would amplify
                with np.errstate(all='ignore'):
                    if st_.get('swap') and st_['kind'] in ('ma-same',):
                        res = OPS[st_['op']](B, A)
                        want = loop_apply(OPS[st_['op']], np.broadcast_to(Barr, before.shape).copy(), before)
                    else:
                        res = OPS[st_['op']](A, B)
                        want = loop_apply(OPS[st_['op']], before, Barr)
                if not hasattr(res, 'data') or res.data.shape != want.shape or not np.array_equal(res.data, want, equal_nan=True):
                    out.fail(sig + 'out-of-place-after-history', 'step %d: out-of-place %s on a MatrixArray with a history of in-place operations (start=%s) differs from '
                             'the operation applied matrix by matrix to its current contents' % (n, st_['op'], spec.get('start', 'random')))
                    break
                if not np.array_equal(A.data, before, equal_nan=True) or (hasattr(res, 'data') and np.shares_memory(res.data, A.data)):
                    out.fail(sig + 'out-of-place-modifies-operand', 'step %d: out-of-place %s modified or aliases its left operand' % (n, st_['op']))
                    break
            elif do == 'snapshot':
                snaps.append((A.get_copy(), A.data.copy()))
            elif do == 'invert':
                conds = [np.linalg.cond(ref[l]) for l in range(L)]
                if max(conds) > 1e3:
                    continue
                A.invert(inplace=True)
                ref = np.stack([np.linalg.inv(ref[l]) for l in range(L)])
                exact = False
            elif do == 'dot':
                Bm = make(st_['seed'], L, R, 'NonSpatial')
                A.dot(Bm, inplace=True)
                ref = np.stack([ref[l] @ Bm.data[l] for l in range(L)])
                exact = False
            scale = np.max(np.abs(ref)) if ref.size else 1.0
            if not np.all(np.isfinite(ref)) or scale > 1e100:
                break
            ok = np.array_equal(A.data, ref) if exact else np.allclose(A.data, ref, rtol=1e-9, atol=1e-9 * scale)
            if A.data.shape != ref.shape or not ok:
                out.fail(sig + 'diverged-from-ndarray-program', 'after step %d (%s) the MatrixArray differs from the same program on plain ndarrays' % (n, do))
                break
            for k, (c, cref) in enumerate(snaps):
                if not np.array_equal(c.data, cref):
                    out.fail(sig + 'snapshot-changed', 'a get_copy() snapshot changed after later in-place operations (step %d)' % n)
                    break
        out.nontrivial = R >= 2 and L >= 2 and len(spec['steps']) >= 2
        out.label('steps=%d' % len(spec['steps']), 'start=' + spec.get('start', 'random'))
        if any(x['do'] == 'oop' for x in spec['steps']):
            out.label('has-out-of-place-step')
        return out


SUBS = [Binary(), SpaceMatrix(), DotInvert(), Named(), Program()]
