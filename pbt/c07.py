"""C07 -- Real/Fourier transforms are exact mutual inverses on every reachable Domain."""
import math

import numpy as np
from hypothesis import strategies as st

from . import build, specs
from .core import History, Sub, Outcome, target

PID = 'C07'
SHARDS = {'quick': 8, 'thorough': 16}
RULE = ('(construct) every length 1..300 (quick) / 1..4096 (thorough) x a list of decimal/binary/irrational spacings x '
        '{dr,dk} is enumerated and the grid compared with r_i=(i+1)dr, k_j=(j+1)dk, dr*dk*length=pi; '
        '(setters) Hypothesis state machine over set_dr/set_dk/set_length with model (length,dr): after every step the '
        'object is compared with the formula grid and with a freshly constructed Domain(length,dr); transforms are run through the '
        'object directly after a setter (before any attribute is read) and after earlier transforms, and compared with the same transform '
        'on a fresh Domain; '
        '(transforms) generated domains x generated real arrays / symmetric MatrixArrays of rank 1-4: linearity, both '
        'round trips within the DST rounding bound, pairwise identity of MatrixArray and vector transforms, symmetry, '
        'space flag, refusal of a repeated transform. Non-trivial = length not a power of two, or a setter history with '
        '>=2 setter calls including set_length, or a transform case with a non-constant array; distinct = spec hash.')
ASSUMPTIONS = ['round-trip tolerance 16*eps*(log2 N+2)*||r f||_2/r_i + 16 eps |f_i| (FFT backward-error bound), never an absolute number',
               'length >= 1, spacing > 0 finite; arrays real, finite, |entries| between 1e-12 and 1e3 times an overall factor 1e-200 .. 1e150 (every entry and every transform sum stays a normal double)']
EPS = np.finfo(float).eps


def snorm(x):
    """2-norm that neither underflows nor overflows for representable data (scale by the largest entry first)."""
    x = np.asarray(x, dtype=float)
    m = float(np.max(np.abs(x))) if x.size else 0.0
    if m == 0.0 or not math.isfinite(m):
        return m
    return m * float(np.linalg.norm(x / m))

K_ROUND = 16.0


def ulps_ok(a, b, n=4):
    a = np.asarray(a, dtype=float)
    b = np.asarray(b, dtype=float)
    return bool(np.all(np.abs(a - b) <= n * EPS * np.maximum(np.abs(a), np.abs(b))))


def check_grid(dom, length, dr_model, out, sig, dk_given=None):
    """Compare a Domain with the formula grid of (length, dr_model). Returns True when shapes are right."""
    ok = True
    if dom.length != length:
        out.fail(sig + 'length-attr', 'Domain.length=%r expected %r' % (dom.length, length))
    if len(dom.r) != length or len(dom.k) != length:
        out.fail(sig + 'grid-point-count', 'grids have %d (r) / %d (k) points for length=%d (dr=%r, dk=%r)' % (
            len(dom.r), len(dom.k), length, dom.dr, dom.dk), length=length, dr=dom.dr, dk=dom.dk)
        return False
    idx = np.arange(1, length + 1, dtype=float)
    if not ulps_ok(dom.dr, dr_model):
        out.fail(sig + 'dr-value', 'dr=%r expected %r' % (dom.dr, dr_model))
        ok = False
    if abs(dom.dk * dom.dr * length - math.pi) > 8 * EPS * math.pi:
        out.fail(sig + 'stale-conjugate-spacing', 'dr*dk*length = %r, not pi (dr=%r dk=%r length=%d)' % (
            dom.dk * dom.dr * length, dom.dr, dom.dk, length))
        ok = False
    if dk_given is not None and dom.dk != dk_given:
        out.fail(sig + 'dk-value', 'dk=%r but %r was assigned' % (dom.dk, dk_given))
    if np.any(np.abs(dom.r - idx * dom.dr) > 4 * EPS * idx * dom.dr):
        out.fail(sig + 'r-grid', 'r_i != (i+1)*dr beyond 4 ulp', worst=float(np.max(np.abs(dom.r - idx * dom.dr))))
        ok = False
    if np.any(np.abs(dom.k - idx * dom.dk) > 4 * EPS * idx * dom.dk):
        out.fail(sig + 'k-grid', 'k_j != (j+1)*dk beyond 4 ulp (k[0]=%r dk=%r)' % (dom.k[0], dom.dk))
        ok = False
    if np.shape(dom.DST_II_coeffs) != (length,) or not ulps_ok(dom.DST_II_coeffs, 2.0 * math.pi * dom.r * dom.dr):
        out.fail(sig + 'forward-coefficients', 'DST_II_coeffs != 2 pi r dr')
        ok = False
    if np.shape(dom.DST_III_coeffs) != (length,) or not ulps_ok(dom.DST_III_coeffs, dom.k * dom.dk / (4 * math.pi ** 2)):
        out.fail(sig + 'backward-coefficients', 'DST_III_coeffs != k dk/(4 pi^2) (stale after a setter?)')
        ok = False
    if np.shape(dom.long_r) != (length, 1, 1) or not np.array_equal(dom.long_r[:, 0, 0], dom.r):
        out.fail(sig + 'long_r', 'long_r is not r reshaped to (length,1,1)')
        ok = False
    return ok


def compare_fresh(dom, length, out, sig):
    """indistinguishable from Domain(length, dr=dom.dr)"""
    P = target()
    fresh = P.Domain(length=length, dr=dom.dr)
    if len(fresh.r) != length or len(fresh.k) != length:
        return  # the constructor itself mis-counts: reported by check_grid on that domain
    if len(dom.r) != length or len(dom.k) != length:
        return
    if not (np.array_equal(fresh.r, dom.r) and fresh.dr == dom.dr and np.array_equal(fresh.DST_II_coeffs, dom.DST_II_coeffs)):
        out.fail(sig + 'differs-from-fresh/real-grid', 'r / DST_II_coeffs differ from a fresh Domain(length=%d, dr=%r)' % (length, dom.dr))
    if not (ulps_ok(fresh.k, dom.k) and ulps_ok(fresh.dk, dom.dk) and ulps_ok(fresh.DST_III_coeffs, dom.DST_III_coeffs, 8)):
        out.fail(sig + 'differs-from-fresh/fourier-grid', 'k / dk / DST_III_coeffs differ from a fresh Domain(length=%d, dr=%r): dk=%r vs fresh %r' % (
            length, dom.dr, dom.dk, fresh.dk))
    f = np.cos(3.0 * dom.r) * np.exp(-dom.r)
    a, b = dom.to_fourier(f), fresh.to_fourier(f)
    if not ulps_ok(a, b, 64) and np.max(np.abs(a - b)) > 1e-12 * np.max(np.abs(b)):
        out.fail(sig + 'differs-from-fresh/transform', 'to_fourier differs from that of a fresh Domain with the same length and dr')


# ---------------------------------------------------------------------------

class Construct(Sub):
    name = 'construct'
    kind = 'enum'
    doc = 'exhaustive: Domain(length, dr=s) and Domain(length, dk=s) for all lengths in range x spacing list'
    budget = {'quick': 0, 'thorough': 0}

    def enumerate(self, tier):
        top = 300 if tier == 'quick' else 4096
        spac = specs.DECIMAL_SPACINGS[:8] if tier == 'quick' else specs.DECIMAL_SPACINGS
        for n in range(1, top + 1):
            for s in spac:
                yield {'length': n, 'dr': s}
                yield {'length': n, 'dk': s}

    def check(self, spec):
        out = Outcome()
        n = spec['length']
        dom = build.domain(spec)
        if 'dr' in spec:
            if dom.dr != spec['dr']:
                out.fail(PID + '/construct/dr-value', 'dr=%r but %r was given' % (dom.dr, spec['dr']))
            check_grid(dom, n, spec['dr'], out, PID + '/construct/')
        else:
            check_grid(dom, n, math.pi / (spec['dk'] * n), out, PID + '/construct/', dk_given=spec['dk'])
        out.nontrivial = (n & (n - 1)) != 0
        out.label('via-' + ('dr' if 'dr' in spec else 'dk'), 'pow2' if not out.nontrivial else 'non-pow2')
        return out


class ConstructRandom(Sub):
    name = 'construct-random'
    doc = 'generated (length, spacing, dr|dk) incl. arbitrary non-decimal spacings; grid + fresh comparison'
    budget = {'quick': 1500, 'thorough': 60000}

    def strategy(self, tier):
        return specs.domain_spec(4096 if tier == 'quick' else 16384)

    def check(self, spec):
        return Construct.check(self, spec)


class Setters(History):
    name = 'setters'
    doc = 'stateful machine: construct from dr|dk, then any sequence of dr/dk/length assignments; model=(length,dr)'
    budget = {'quick': 240, 'thorough': 16000}
    steps = {'quick': 12, 'thorough': 25}

    def params_strategy(self, tier):
        # spacings also as python ints (a grid first built from an integer spacing must not stay integer-typed)
        ints = st.builds(lambda n, v, w: {'length': n, w: v}, specs.length(1024), st.sampled_from([1, 2, 3]), st.sampled_from(['dr', 'dk']))
        return st.one_of(specs.domain_spec(1024), specs.domain_spec(1024), ints)

    def ops(self, tier):
        # probe: transform an array immediately after the assignment, before any grid attribute is read (a lazily rebuilt
        # grid must not be observable through any access path)
        probe = st.one_of(st.none(), specs.array_desc())
        sp = st.one_of(specs.spacing(), specs.spacing(), specs.spacing(), st.sampled_from([1, 2]))
        return {'set_dr': {'value': sp, 'probe': probe},
                'set_dk': {'value': sp, 'probe': probe},
                'set_length': {'value': specs.length(1024), 'probe': probe},
                'roundtrip': {'array': specs.array_desc()},
                # continue with an independent copy of the Domain (what PRISM.__init__ does with the System's domain); the
                # original is kept and must keep describing its own grid whatever is done to the copy afterwards
                'copy': {'how': st.sampled_from(['deepcopy', 'pickle'])}}

    def probe(self, state, desc, out, which):
        """transform through the object and through a freshly constructed Domain(length, dr) of the model; no attribute of the
        object is read before the transform"""
        P = target()
        sig = PID + '/setters/'
        n = state['length']
        f = build.array(desc, n)
        fresh = P.Domain(length=n, dr=state['dr'])
        if len(fresh.r) != n or len(fresh.k) != n:
            return
        for name in (('to_fourier', 'to_real') if which % 2 == 0 else ('to_real', 'to_fourier')):
            try:
                got = np.asarray(getattr(state['dom'], name)(f.copy()))
            except Exception as exc:   # noqa
                out.fail(sig + 'transform-after-setter-raises', '%s raised %s: %s directly after a setter (model length=%d dr=%r)' % (
                    name, type(exc).__name__, exc, n, state['dr']))
                return
            want = np.asarray(getattr(fresh, name)(f.copy()))
            scale = float(np.max(np.abs(want))) + 1e-300
            if got.shape != want.shape or not np.all(np.abs(got - want) <= 1e-10 * scale):
                out.fail(sig + 'transform-differs-from-fresh-domain', '%s on a Domain configured through setters differs from the same transform on a fresh '
                         'Domain(length=%d, dr=%r): max rel. diff %.3g' % (name, n, state['dr'],
                                                                          float(np.max(np.abs(got - want))) / scale if got.shape == want.shape else float('nan')))
                return
        # the whole-MatrixArray versions as well (they may keep their own view of the grid): same Domain object, compared with a
        # fresh Domain, in the direction that alternates with the history
        for direction in (('fourier', 'real') if which % 2 == 0 else ('real', 'fourier')):
            src = P.Space.Real if direction == 'fourier' else P.Space.Fourier
            data = np.empty((n, 2, 2))
            data[:, 0, 0], data[:, 0, 1], data[:, 1, 0], data[:, 1, 1] = f, 0.5 * f, 0.5 * f, -f
            ma, mb = P.MatrixArray(length=n, rank=2, data=data.copy(), space=src), P.MatrixArray(length=n, rank=2, data=data.copy(), space=src)
            try:
                getattr(state['dom'], 'MatrixArray_to_' + direction)(ma)
            except Exception as exc:   # noqa
                out.fail(sig + 'transform-after-setter-raises', 'MatrixArray_to_%s raised %s: %s after setters (model length=%d dr=%r)' % (
                    direction, type(exc).__name__, exc, n, state['dr']))
                return
            getattr(fresh, 'MatrixArray_to_' + direction)(mb)
            scale = float(np.max(np.abs(mb.data))) + 1e-300
            if ma.data.shape != mb.data.shape or not np.all(np.abs(ma.data - mb.data) <= 1e-10 * scale):
                out.fail(sig + 'transform-differs-from-fresh-domain', 'MatrixArray_to_%s on a Domain configured through setters differs from the same transform on a '
                         'fresh Domain(length=%d, dr=%r): max rel. diff %.3g' % (direction, n, state['dr'], float(np.max(np.abs(ma.data - mb.data))) / scale))
                return

    def init(self, params, out):
        dom = build.domain(params)
        n = params['length']
        dr = params['dr'] if 'dr' in params else math.pi / (params['dk'] * n)
        st_ = {'dom': dom, 'length': n, 'dr': dr, 'nset': 0, 'nlen': 0}
        self.compare(st_, out, dk_given=params.get('dk'))
        return st_

    def apply(self, state, op, out):
        dom = state['dom']
        dk_given = None
        if op['op'] == 'set_dr':
            dom.dr = op['value']
            state['dr'] = op['value']
            state['nset'] += 1
        elif op['op'] == 'set_dk':
            dom.dk = op['value']
            state['dr'] = math.pi / (op['value'] * state['length'])
            dk_given = op['value']
            state['nset'] += 1
        elif op['op'] == 'set_length':
            dom.length = op['value']
            state['length'] = op['value']
            state['nset'] += 1
            state['nlen'] += 1
        elif op['op'] == 'copy':
            import copy as _copy
            import pickle as _pickle
            state['left_behind'] = (dom, state['length'], state['dr'])
            state['dom'] = _copy.deepcopy(dom) if op['how'] == 'deepcopy' else _pickle.loads(_pickle.dumps(dom))
            state['ncopy'] = state.get('ncopy', 0) + 1
        elif op['op'] == 'roundtrip':
            self.probe(state, op['array'], out, state['nset'])
            if not out.violations and build.grid_ok(dom):
                f = build.array(op['array'], dom.length)
                roundtrip_vector(dom, f, out, PID + '/setters/')
            state['ntransform'] = state.get('ntransform', 0) + 1
            return
        if op.get('probe') is not None:
            state['nprobe'] = state.get('nprobe', 0) + 1
            self.probe(state, op['probe'], out, state['nset'])
            if out.violations:
                return
        self.compare(state, out, dk_given)

    def compare(self, state, out, dk_given=None):
        sig = PID + '/setters/'
        ok = check_grid(state['dom'], state['length'], state['dr'], out, sig, dk_given)
        compare_fresh(state['dom'], state['length'], out, sig)
        if state.get('left_behind') is not None and not out.violations:
            d0, n0, dr0 = state['left_behind']
            check_grid(d0, n0, dr0, out, sig + 'original-after-copy/')
            compare_fresh(d0, n0, out, sig + 'original-after-copy/')

    def finish(self, state, trace, out):
        out.nontrivial = state['nset'] >= 2 and state['nlen'] >= 1
        if state['nlen']:
            out.label('has-set_length')
        if any(o['op'] == 'set_dk' for o in trace):
            out.label('has-set_dk')
        if any(o['op'] == 'roundtrip' for o in trace):
            out.label('has-roundtrip')
        if state.get('nprobe'):
            out.label('transform-directly-after-setter')
        if state.get('ncopy'):
            out.label('continued-on-a-copy')
            if any(a == 'copy' and b.startswith('set_') for a, b in zip([o['op'] for o in trace], [o['op'] for o in trace][1:])):
                out.label('setter-directly-after-copy')
        kinds = [o['op'] for o in trace]
        if any(a == 'roundtrip' and b.startswith('set_') for a, b in zip(kinds, kinds[1:])):
            out.label('setter-after-transform')


def fwd_bound(dom, f):
    n = dom.length
    x = dom.DST_II_coeffs * f
    return K_ROUND * EPS * (math.log2(n) + 2) * 2.0 * math.sqrt(n) * snorm(x) / dom.k + K_ROUND * EPS * 0


def roundtrip_vector(dom, f, out, sig):
    n = dom.length
    lg = math.log2(n) + 2
    F = dom.to_fourier(f)
    back = dom.to_real(F)
    if np.shape(F) != (n,) or np.shape(back) != (n,):
        out.fail(sig + 'transform-shape', 'transform output has the wrong shape')
        return None
    tol = K_ROUND * EPS * lg * snorm(dom.r * f) / dom.r + K_ROUND * EPS * np.abs(f)
    err = np.abs(back - f)
    if np.any(err > tol) or not np.all(np.isfinite(back)):
        i = int(np.argmax(err / np.maximum(tol, 1e-300)))
        out.fail(sig + 'roundtrip-real', 'to_real(to_fourier(f)) != f: |err|=%.3g > bound %.3g at i=%d (length=%d dr=%r dk=%r)' % (
            err[i], tol[i], i, n, dom.dr, dom.dk))
    G = dom.to_fourier(dom.to_real(f))     # read f as a Fourier-space array
    tol = K_ROUND * EPS * lg * snorm(dom.k * f) / dom.k + K_ROUND * EPS * np.abs(f)
    err = np.abs(G - f)
    if np.any(err > tol) or not np.all(np.isfinite(G)):
        i = int(np.argmax(err / np.maximum(tol, 1e-300)))
        out.fail(sig + 'roundtrip-fourier', 'to_fourier(to_real(F)) != F: |err|=%.3g > bound %.3g at j=%d (length=%d dr=%r dk=%r)' % (
            err[i], tol[i], i, n, dom.dr, dom.dk))
    return float(np.max(np.abs(back - f) / np.maximum(K_ROUND * EPS * lg * snorm(dom.r * f) / dom.r + K_ROUND * EPS * np.abs(f), 1e-300)))


class Transforms(Sub):
    name = 'transforms'
    doc = 'generated domain x arrays: linearity, round trips, MatrixArray transforms (rank 1-4, symmetric)'
    budget = {'quick': 1200, 'thorough': 48000}

    def strategy(self, tier):
        return st.fixed_dictionaries({
            'domain': specs.domain_spec(2048 if tier == 'quick' else 8192),
            'f': specs.array_desc(), 'g': specs.array_desc(),
            'a': specs.signed(-6, 2), 'b': specs.signed(-6, 2),
            'rank': st.integers(1, 4), 'm': specs.array_desc(),
            # overall magnitude of the arrays: the transforms are linear, so 1e-200 .. 1e150 must behave like O(1)
            # (the bounds use an overflow/underflow-safe norm: squaring 1e-200 would give a bound of 0)
            'scale_exp': st.sampled_from([0, 0, 0, -200, 150, -100, 100]),
        })

    def check(self, spec):
        P = target()
        out = Outcome()
        sig = PID + '/' + self.name + '/'
        dom = build.domain(spec['domain'])
        n = dom.length
        if not build.grid_ok(dom):
            out.skipped = 'grid-point-count-wrong(judged by construct)'
            return out
        mag = 10.0 ** spec.get('scale_exp', 0)
        f = build.array(spec['f'], n) * mag
        g = build.array(spec['g'], n) * mag
        a, b = spec['a'], spec['b']
        r0, k0 = dom.r.copy(), dom.k.copy()
        f0 = f.copy()
        ratio = roundtrip_vector(dom, f, out, sig)
        out.info['roundtrip_err_over_bound'] = ratio
        # linearity, both directions
        lg = math.log2(n) + 2
        for name, T, coeff, div in (('fourier', dom.to_fourier, dom.DST_II_coeffs, dom.k), ('real', dom.to_real, dom.DST_III_coeffs, dom.r)):
            lhs = T(a * f + b * g)
            rhs = a * T(f) + b * T(g)
            scale = (snorm(coeff * (a * f + b * g)) + abs(a) * snorm(coeff * f) + abs(b) * snorm(coeff * g))
            tol = K_ROUND * EPS * lg * 2.0 * math.sqrt(n) * scale / div + K_ROUND * EPS * (np.abs(lhs) + np.abs(rhs))
            if np.any(np.abs(lhs - rhs) > tol):
                out.fail(sig + 'linearity-' + name, 'T(a f + b g) != a T(f) + b T(g) for to_%s' % name,
                         worst=float(np.max(np.abs(lhs - rhs) / np.maximum(tol, 1e-300))))
        if not (np.array_equal(f, f0) and np.array_equal(dom.r, r0) and np.array_equal(dom.k, k0)):
            out.fail(sig + 'input-modified', 'a transform modified its input array or the grid')
        # the same data handed over as a strided view of a longer buffer: identical result, buffer untouched
        buf = np.empty(2 * n)
        buf[0::2] = f
        buf[1::2] = 3.25
        for name, T in (('fourier', dom.to_fourier), ('real', dom.to_real)):
            if not np.array_equal(np.asarray(T(buf[0::2])), np.asarray(T(f.copy())), equal_nan=True):
                out.fail(sig + 'depends-on-memory-layout', 'to_%s gives a different result for a strided view than for a contiguous array' % name)
        if not (np.array_equal(buf[0::2], f) and np.all(buf[1::2] == 3.25)):
            out.fail(sig + 'input-modified', 'a transform wrote into the buffer behind a strided view')
        # write-protected and integer-typed arrays are the same input as a writeable float array with these values
        fro = f.copy()
        fro.setflags(write=False)
        fi = (np.arange(n) % 7 - 3).astype(np.int64)
        for name, T in (('fourier', dom.to_fourier), ('real', dom.to_real)):
            try:
                if not np.array_equal(np.asarray(T(fro)), np.asarray(T(f.copy())), equal_nan=True):
                    out.fail(sig + 'depends-on-memory-layout', 'to_%s gives a different result for a write-protected array' % name)
                if not np.array_equal(np.asarray(T(fi), dtype=float), np.asarray(T(fi.astype(float))), equal_nan=True):
                    out.fail(sig + 'depends-on-dtype', 'to_%s gives a different result for an integer-typed array than for the same values as floats' % name)
            except (ValueError, TypeError) as exc:
                out.fail(sig + 'depends-on-dtype', 'to_%s raised %s: %s for a write-protected / integer-typed array' % (name, type(exc).__name__, exc))
        # MatrixArray versions
        # one Domain object serves MatrixArrays of different rank one after the other (the PRISM object of a 3-type system and of a
        # 1-type system built on the same Domain): nothing about the first rank may stick to the Domain
        rank0 = spec['rank']
        rank_b = {1: 3, 2: 4, 3: 1, 4: 2}[rank0] if max(rank0, {1: 3, 2: 4, 3: 1, 4: 2}[rank0]) <= (2 if self.name == 'long-grids' else 4) else (2 if rank0 == 1 else 1)
        for rank in (rank0, rank_b):
            for direction in ('fourier', 'real'):
                src_space = P.Space.Real if direction == 'fourier' else P.Space.Fourier
                dst_space = P.Space.Fourier if direction == 'fourier' else P.Space.Real
                MA = build.sym_matrix_array(spec['m'], n, rank, space=src_space)
                before = MA.data.copy()
                fn = dom.MatrixArray_to_fourier if direction == 'fourier' else dom.MatrixArray_to_real
                vec = dom.to_fourier if direction == 'fourier' else dom.to_real
                ret = fn(MA)
                if MA.space != dst_space:
                    out.fail(sig + 'space-flag', 'MatrixArray_to_%s left space=%s' % (direction, MA.space))
                if MA.data.shape != before.shape:
                    out.fail(sig + 'transform-shape', 'MatrixArray transform changed the data shape')
                    continue
                for i in range(rank):
                    for j in range(rank):
                        exp = vec(np.ascontiguousarray(before[:, i, j]))
                        if not np.array_equal(MA.data[:, i, j], exp, equal_nan=True):
                            out.fail(sig + 'matrix-vs-vector', 'pair (%d,%d) of MatrixArray_to_%s differs from the vector transform' % (i, j, direction),
                                     worst=float(np.max(np.abs(MA.data[:, i, j] - exp))))
                if not np.array_equal(MA.data, np.transpose(MA.data, (0, 2, 1)), equal_nan=True):
                    out.fail(sig + 'symmetry', 'MatrixArray_to_%s broke the symmetry of the matrices' % direction)
                snap = MA.data.copy()
                try:
                    fn(MA)
                    out.fail(sig + 'repeat-not-refused', 'MatrixArray_to_%s accepted an array already flagged %s' % (direction, dst_space))
                except ValueError:
                    if not np.array_equal(MA.data, snap, equal_nan=True) or MA.space != dst_space:
                        out.fail(sig + 'refusal-modified-array', 'refused transform still changed the array')
                # and back: round trip on the MatrixArray level
                inv = dom.MatrixArray_to_real if direction == 'fourier' else dom.MatrixArray_to_fourier
                inv(MA)
                grid = dom.r if direction == 'fourier' else dom.k
                for i in range(rank):
                    for j in range(i, rank):
                        col = before[:, i, j]
                        tol = K_ROUND * EPS * lg * snorm(grid * col) / grid + K_ROUND * EPS * np.abs(col)
                        if np.any(np.abs(MA.data[:, i, j] - col) > tol):
                            out.fail(sig + 'matrix-roundtrip', 'MatrixArray round trip (%s first) does not restore pair (%d,%d)' % (direction, i, j))
                if MA.space != src_space:
                    out.fail(sig + 'space-flag', 'space flag not restored by the inverse MatrixArray transform')
                # an array that is symmetric only to rounding (as products and inverses inside the library are): the documented
                # behaviour is that symmetry is enforced -- the result is exactly symmetric, each pair the transform of the (a<=b) entry
                if rank >= 2:
                    MB = build.sym_matrix_array(spec['m'], n, rank, space=src_space)
                    for i in range(rank):
                        for j in range(i):
                            MB.data[:, i, j] = MB.data[:, i, j] * (1.0 + 3 * EPS) + 1e-300
                    upper = MB.data.copy()
                    fn(MB)
                    if not np.array_equal(MB.data, np.transpose(MB.data, (0, 2, 1)), equal_nan=True):
                        out.fail(sig + 'symmetry-not-enforced', 'MatrixArray_to_%s of an array that is symmetric only to rounding returns an asymmetric array '
                                 '(max |M_ab - M_ba| = %.3g)' % (direction, float(np.max(np.abs(MB.data - np.transpose(MB.data, (0, 2, 1)))))))
                    else:
                        for i in range(rank):
                            for j in range(i, rank):
                                if not np.array_equal(MB.data[:, i, j], vec(np.ascontiguousarray(upper[:, i, j])), equal_nan=True):
                                    out.fail(sig + 'matrix-vs-vector', 'pair (%d,%d) of a nearly symmetric array is not the transform of its (a<=b) entry' % (i, j))
            out.nontrivial = bool(np.ptp(f) > 0) and n >= 2
        rank = rank0
        out.label('rank=%d' % rank, 'scale=1e%d' % spec.get('scale_exp', 0), 'pow2' if (n & (n - 1)) == 0 else 'non-pow2', 'via-' + ('dr' if 'dr' in spec['domain'] else 'dk'))
        return out


class LongGrids(Transforms):
    name = 'long-grids'
    doc = 'the transforms sub-check on long grids (3 000 .. 70 000 points: powers of two, round decimal, prime and arbitrary lengths)'
    budget = {'quick': 48, 'thorough': 1600}

    def strategy(self, tier):
        n = st.one_of(st.sampled_from([4096, 8192, 16384, 32768, 65536, 5000, 10000, 20000, 50000, 3142, 3143, 10007, 65537]), st.integers(3000, 70000))
        dom = st.builds(lambda n, s, which: {'length': n, which: s}, n, specs.spacing(), st.sampled_from(['dr', 'dr', 'dk']))
        return st.fixed_dictionaries({
            'domain': dom, 'f': specs.array_desc(), 'g': specs.array_desc(), 'a': specs.signed(-6, 2), 'b': specs.signed(-6, 2),
            'rank': st.integers(1, 2), 'm': specs.array_desc(), 'scale_exp': st.sampled_from([0, 0, 0, -200, 150])})


SUBS = [Construct(), ConstructRandom(), Setters(), Transforms(), LongGrids()]
