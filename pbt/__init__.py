"""Property-based verification machinery for usnistgov/pyPRISM (see /verif/DESIGN.md)."""
