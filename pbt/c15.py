"""C15 -- Density / Diameter keep derived quantities consistent under any history."""
import itertools
import math

import numpy as np
from hypothesis import strategies as st

from .core import History, Sub, Outcome, target

PID = 'C15'
SHARDS = {'quick': 4, 'thorough': 16}
RULE = ('Histories of density/diameter assignments (single type, list or tuple of types, python float / int / numpy '
        'scalar values, log-uniform 1e-6..1e2, or the current value changed by a relative 1e-12..1e-6 / absolute 1e-10..1e-9 amount) on 1-4 types run by a Hypothesis RuleBasedStateMachine against a dict '
        'model; after every step every derived quantity (pair, site, total, sigma, volume, accessors, check()) is '
        'compared with the model. Non-trivial = the history re-assigns a type after another type was assigned; '
        'distinct = hash of (type list, operation trace). Sub-check "orders" enumerates every sequence of <=4 '
        'assignments over 3 types x 2 values exhaustively.')
ASSUMPTIONS = ['values are positive finite numbers (the documented domain)',
               'pair/site/sigma are compared bit-for-bit (one commutative float operation), total and volume to 8 ulp']

NAMES = ['A', 'B', 'C', 'poly', 'nano', 'solvent', 'AB', 'A B', '1', 'a']
EPS = np.finfo(float).eps


def _value():
    f = st.floats(-6, 2).map(lambda e: float('%.6g' % (10.0 ** e)))
    # 'nudge': the current value of the (first) addressed type changed by a tiny relative or absolute amount -- a fine parameter
    # sweep; a derived quantity must follow however small the change
    nudge = st.sampled_from([['nudge', 1e-6, 0.0], ['nudge', -3e-7, 0.0], ['nudge', 1e-9, 0.0], ['nudge', 0.0, 1e-9], ['nudge', 0.0, -2e-10], ['nudge', 1e-12, 0.0]])
    # 'derived': the value that a derived entry of the addressed types currently has (their mean diameter / summed density):
    # an assignment must be carried out even when the new value coincides with something already stored in a derived table
    derived = st.just(['derived'])
    return st.one_of(f, f, st.integers(1, 50), f.map(lambda v: ['np', v]), nudge, derived)


def _val(v):
    if isinstance(v, list):
        return np.float64(v[1])
    return v


class DensityDiameterHistory(History):
    name = 'history'
    doc = 'stateful machine: set density / diameter on one type or a list, model comparison after every step'
    budget = {'quick': 320, 'thorough': 96000}
    steps = {'quick': 20, 'thorough': 30}

    def params_strategy(self, tier):
        return st.lists(st.sampled_from(NAMES), min_size=1, max_size=4, unique=True).map(lambda t: {'types': t})

    def ops(self, tier):
        idx = st.integers(0, 3)
        # a group of types may be given as any iterable (Table.listify): python lists and tuples -- 2-tuples included, which
        # __getitem__ reads as a pair but __setitem__ must still treat as a group of two types
        tup = st.lists(idx, min_size=1, max_size=4).map(lambda l: {'tuple': l})
        key = st.one_of(idx, idx, st.lists(idx, min_size=1, max_size=4), tup, st.tuples(idx, idx).map(lambda t: {'tuple': list(t)}))
        return {'set_density': {'key': key, 'value': _value()},
                'set_diameter': {'key': key, 'value': _value()},
                'read': {}}

    def init(self, params, out):
        P = target()
        types = list(params['types'])
        state = {'types': types, 'rho': P.Density(types), 'dia': P.Diameter(types),
                 'm_rho': {}, 'm_dia': {}, 'assigned_order': [], 'reassign_after_other': False}
        self.compare(state, out)
        return state

    def _key(self, state, key):
        n = len(state['types'])
        if isinstance(key, dict):
            return tuple(state['types'][i % n] for i in key['tuple'])
        if isinstance(key, list):
            return [state['types'][i % n] for i in key]
        return state['types'][key % n]

    def apply(self, state, op, out):
        if op['op'] == 'read':
            self.compare(state, out)
            return
        key = self._key(state, op['key'])
        names = list(key) if isinstance(key, (list, tuple)) else [key]
        if isinstance(key, tuple):
            out.label('tuple-key-len%d' % len(key))
        which = 'm_rho' if op['op'] == 'set_density' else 'm_dia'
        if isinstance(op['value'], list) and op['value'][0] == 'derived':
            cur = [float(state[which][n]) for n in names if n in state[which]]
            if len(cur) >= 2:
                val = (cur[0] + cur[1]) / 2.0 if which == 'm_dia' else cur[0] + cur[1]
                state['derived_value'] = True
            else:
                val = 1.5
        elif isinstance(op['value'], list) and op['value'][0] == 'nudge':
            cur = float(state[which].get(names[0], 1.0))
            val = cur * (1.0 + op['value'][1]) + op['value'][2]
            if val != cur and names[0] in state[which]:
                state['nudged'] = True
        else:
            val = _val(op['value'])
        for nme in names:
            if nme in state[which] and any(o != nme for o in state[which]):
                state['reassign_after_other'] = True
            state[which][nme] = val
        if op['op'] == 'set_density':
            state['rho'][key] = val
        else:
            state['dia'][key] = val
        self.compare(state, out)

    def compare(self, state, out):
        types, rho, dia = state['types'], state['rho'], state['dia']
        mr, md = state['m_rho'], state['m_dia']
        sig = PID + '/history/'
        # --- density
        for a in types:
            if (rho[a] is None) != (a not in mr):
                out.fail(sig + 'density-value', 'density[%s] assigned-ness differs from model' % a)
            elif a in mr and rho[a] != mr[a]:
                out.fail(sig + 'density-value', 'density[%s]=%r, last assigned %r' % (a, rho[a], mr[a]))
        for a, b in itertools.product(types, types):
            if a in mr and b in mr:
                exp_pair = float(mr[a]) * float(mr[b])
                exp_site = float(mr[a]) if a == b else float(mr[a]) + float(mr[b])
                got_pair = rho.pair[a, b]
                got_site = rho.site[a, b]
                if np.shape(got_pair) != (1,) or np.shape(got_site) != (1,):
                    out.fail(sig + 'density-shape', 'pair/site entry is not a length-1 pair function')
                    continue
                if float(got_pair[0]) != exp_pair:
                    out.fail(sig + 'pair-density', 'pair[%s,%s]=%r expected rho_a*rho_b=%r' % (a, b, float(got_pair[0]), exp_pair),
                             model=mr)
                if float(got_site[0]) != exp_site:
                    out.fail(sig + 'site-density', 'site[%s,%s]=%r expected %r' % (a, b, float(got_site[0]), exp_site),
                             model=mr)
        exp_total = sum(float(mr[a]) for a in types if a in mr)
        if abs(float(rho.total) - exp_total) > 8 * EPS * max(exp_total, 1e-300) * max(1, len(mr)):
            out.fail(sig + 'total-density', 'total=%r expected sum of assigned densities %r' % (rho.total, exp_total), model=mr)
        try:
            rho.check()
            raised = False
        except ValueError:
            raised = True
        if raised != (len(mr) < len(types)):
            out.fail(sig + 'density-check', 'Density.check() raised=%s but %d of %d types assigned' % (raised, len(mr), len(types)))
        # --- diameter
        for a in types:
            if (dia[a] is None) != (a not in md):
                out.fail(sig + 'diameter-value', 'diameter[%s] assigned-ness differs from model' % a)
            elif a in md:
                if dia[a] != md[a] or dia.diameter[a] != md[a]:
                    out.fail(sig + 'diameter-value', 'diameter[%s]=%r, last assigned %r' % (a, dia[a], md[a]))
                exp_vol = math.pi * float(md[a]) ** 3 / 6.0
                got = dia.volume[a]
                if got is None or abs(float(got) - exp_vol) > 8 * EPS * exp_vol:
                    out.fail(sig + 'site-volume', 'volume[%s]=%r expected pi d^3/6=%r' % (a, got, exp_vol))
        for a, b in itertools.product(types, types):
            if a in md and b in md:
                exp = (float(md[a]) + float(md[b])) / 2.0
                for how, got in (('sigma-table', dia.sigma[a, b]), ('pair-accessor', dia[a, b])):
                    if got is None or float(got) != exp:
                        out.fail(sig + 'sigma', '%s for (%s,%s) = %r expected (d_a+d_b)/2 = %r' % (how, a, b, got, exp), model=md)
        try:
            dia.check()
            raised = False
        except ValueError:
            raised = True
        if raised != (len(md) < len(types)):
            out.fail(sig + 'diameter-check', 'Diameter.check() raised=%s but %d of %d types assigned' % (raised, len(md), len(types)))

    def finish(self, state, trace, out):
        out.nontrivial = state['reassign_after_other']
        out.label('ntypes=%d' % len(state['types']))
        if state['reassign_after_other']:
            out.label('reassign-after-other')
        if state.get('nudged'):
            out.label('tiny-change-reassignment')
        if state.get('derived_value'):
            out.label('value-equals-derived-entry')
        if any(isinstance(op.get('key'), list) for op in trace):
            out.label('list-key')
        if len(state['m_rho']) == len(state['types']) and len(state['m_dia']) == len(state['types']):
            out.label('fully-assigned')


class Orders(Sub):
    """every sequence of <= 4 assignments over 3 types x {density, diameter} x 2 values"""
    name = 'orders'
    kind = 'enum'
    doc = 'exhaustive: all assignment sequences of length <=4 (quick) / <=5 (thorough) on 3 types, 2 values, both tables'
    budget = {'quick': 0, 'thorough': 0}

    def __init__(self, hist):
        self.hist = hist

    def enumerate(self, tier):
        depth = 4 if tier == 'quick' else 5
        types = ['A', 'B', 'C']
        alphabet = [(w, i, v) for w in ('set_density', 'set_diameter') for i in range(3) for v in (0.25, 3)]
        # density and diameter are independent objects: enumerate each table's sequences separately
        for w in ('set_density', 'set_diameter'):
            alpha = [a for a in alphabet if a[0] == w]
            for n in range(1, depth + 1):
                for seq in itertools.product(alpha, repeat=n):
                    yield {'params': {'types': types},
                           'trace': [{'op': o, 'key': i, 'value': v} for (o, i, v) in seq]}

    def check(self, spec):
        return self.hist.check(spec)


_h = DensityDiameterHistory()
SUBS = [_h, Orders(_h)]
