"""spec -> objects.  Deterministic; every random-looking array comes from a descriptor stored in the spec."""
import numpy as np

from .core import target


def array(desc, n):
    """Build a length-n float array from a JSON descriptor.

    {'kind':'list','values':[...]}                 literal (tiled / truncated to n)
    {'kind':'rng','seed':int,'scale':s}            numpy Generator(PCG64(seed)).standard_normal * s
    {'kind':'modes','modes':[[amp,q,phase,decay],...]}  smooth field  sum amp*cos(q*t+phase)*exp(-decay*t), t=(i+1)/n
    """
    kind = desc['kind']
    if kind == 'list':
        v = np.asarray(desc['values'], dtype=float)
        if len(v) == 0:
            return np.zeros(n)
        reps = -(-n // len(v))
        return np.tile(v, reps)[:n].copy()
    if kind == 'rng':
        g = np.random.Generator(np.random.PCG64(int(desc['seed'])))
        return g.standard_normal(n) * float(desc.get('scale', 1.0))
    if kind == 'modes':
        t = (np.arange(n) + 1.0) / n
        out = np.zeros(n)
        for amp, q, ph, dec in desc['modes']:
            out += amp * np.cos(q * t + ph) * np.exp(-dec * t)
        return out
    raise ValueError('unknown array descriptor %r' % (kind,))


def domain(d):
    P = target()
    if 'dr' in d:
        return P.Domain(length=int(d['length']), dr=d['dr'])
    return P.Domain(length=int(d['length']), dk=d['dk'])


def grid_ok(dom):
    return len(dom.r) == dom.length and len(dom.k) == dom.length


def sym_matrix_array(desc, length, rank, space=None, types=None):
    """Symmetric MatrixArray whose pair functions are built from per-pair descriptors."""
    P = target()
    data = np.zeros((length, rank, rank))
    k = 0
    for i in range(rank):
        for j in range(i, rank):
            d = dict(desc)
            if d['kind'] == 'rng':
                d['seed'] = int(d['seed']) * 31 + k
            elif d['kind'] == 'modes':
                d['modes'] = [[a * (1 + 0.37 * k), q + 0.5 * k, ph + k, dec] for a, q, ph, dec in d['modes']]
            elif d['kind'] == 'list':
                d['values'] = list(np.roll(np.asarray(d['values'], dtype=float), k) * (1 + k))
            v = array(d, length)
            data[:, i, j] = v
            data[:, j, i] = v
            k += 1
    sp = space if space is not None else P.Space.Real
    return P.MatrixArray(length=length, rank=rank, data=data, space=sp, types=types)
