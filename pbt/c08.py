"""C08 -- to_fourier / to_real approximate the continuous 3-D radial Fourier transform (refinement-family oracle)."""
import math

import numpy as np
from hypothesis import strategies as st

from . import specs
from .core import Sub, Outcome, target

PID = 'C08'
SHARDS = {'quick': 4, 'thorough': 16}
RULE = ('Generated analytic families (Gaussian, Yukawa, exponential, sphere indicator) x amplitude in +-[0.1,10] x width w in [0.5,3] x '
        'r_max in {16..40} (>= 12 w) x base resolution 10..16 points per w x how the Domain was configured (constructed, or re-spaced / re-lengthed through '
        'its setters after an earlier transform); each case is a refinement family dr, dr/2, dr/4 at fixed '
        'r_max (the 32 lowest k and 32 fixed r are shared by the family). Forward and backward transforms are judged separately against '
        'the closed-form 3-D pair (forward 4 pi, backward 1/(2 pi^2)): (i) error <= C*(dr/w)*scale, (ii) error ratio per halving in '
        '<= 0.6 (backward <= 0.65; faster convergence is not an error), (iii) Richardson value 2X(dr/4)-X(dr/2) within C2*(dr/2w)^2*scale of exact, (iv) F(k_min) '
        'within O(dr)+O(k_min^2) of the volume integral. All families are non-trivial by construction; distinct = spec hash.')
ASSUMPTIONS = ['constants C, C2 are calibrated >= 3x above the worst value observed over the generator range (forward 0.72 / 0.125, '
               'backward 0.54 / 0.48; sphere backward 0.98) and reported in the evidence',
               'the sphere indicator is discontinuous: backward it is judged at fixed r with |r-R| >= R/4 (at r = R the inverse transform '
               'converges to A/2), by the bound (C=5, observed 1.6) and the halving ratio, not by Richardson',
               'test functions are resolved by the grid (dr <= w/10) and contained in it (r_max >= 12 w)']
C_FWD, C2_FWD = 2.5, 0.5
C_BWD, C2_BWD = 2.0, 2.0
C_BWD_SPHERE = 5.0
NK = 32


def family(name, A, w):
    """(f(r), F(k), volume integral)"""
    if name == 'gauss':
        return (lambda r: A * np.exp(-r * r / (2 * w * w)), lambda k: A * (2 * math.pi * w * w) ** 1.5 * np.exp(-k * k * w * w / 2),
                A * (2 * math.pi * w * w) ** 1.5)
    if name == 'yukawa':
        return (lambda r: A * np.exp(-r / w) / r, lambda k: 4 * math.pi * A / (k * k + 1.0 / (w * w)), 4 * math.pi * A * w * w)
    if name == 'exp':
        return (lambda r: A * np.exp(-r / w), lambda k: 8 * math.pi * A * w ** 3 / (1 + k * k * w * w) ** 2, 8 * math.pi * A * w ** 3)
    if name == 'sphere':
        return (lambda r: A * (r <= w * (1 + 1e-12)).astype(float),
                lambda k: 4 * math.pi * A * (np.sin(k * w) - k * w * np.cos(k * w)) / k ** 3, 4 * math.pi * A * w ** 3 / 3)
    raise ValueError(name)


def spec_strategy():
    amp = st.builds(lambda s, m: s * m, st.sampled_from([-1.0, 1.0]), specs.logfloat(-1, 1, 5))
    return st.fixed_dictionaries({'family': st.sampled_from(['gauss', 'yukawa', 'exp', 'sphere']), 'A': amp,
                                  'w': specs.fl(0.5, 3.0, 4), 'rmax': st.sampled_from([16.0, 20.0, 24.0, 25.6, 32.0, 40.0, 36.0]),
                                  'res': specs.fl(10.0, 16.0, 3), 'via': st.sampled_from(['fresh', 'fresh', 'respaced', 'relengthed'])})


class Refinement(Sub):
    name = 'refinement'
    doc = 'closed-form 3-D Fourier pairs on a dr, dr/2, dr/4 family: bound, halving ratio, Richardson, k->0 volume integral; forward and backward separately'
    budget = {'quick': 600, 'thorough': 400000}

    def strategy(self, tier):
        return spec_strategy()

    def check(self, spec):
        P = target()
        out = Outcome()
        sig = PID + '/'
        name, A, w = spec['family'], spec['A'], spec['w']
        rmax = max(spec['rmax'], math.ceil(12 * w))
        n0 = max(64, int(math.ceil(rmax * spec['res'] / w)))
        dr0 = rmax / n0
        if name == 'sphere':
            w = max(4, int(round(w / dr0))) * dr0     # radius on the base grid
        f, F, vol = family(name, A, w)
        h = dr0 / w
        out.label('family=' + name, 'domain-via=' + spec.get('via', 'fresh'))
        out.nontrivial = True
        fwd, bwd, ef, eb, exf = [], [], [], [], []
        base = np.arange(4, 4 + NK)
        if name == 'sphere':
            # fixed r at a fixed distance from the discontinuity (at r = R itself the inverse transform converges to A/2)
            base = base[np.abs((base + 1) * dr0 - w) >= 0.25 * w]
        for lev in range(3):
            n = n0 * 2 ** lev
            via = spec.get('via', 'fresh')
            if via == 'respaced':
                # the same grid reached through the dr setter on a Domain that has already been used for a transform
                d = P.Domain(length=n, dr=1.7 * rmax / n)
                d.to_real(d.to_fourier(np.ones(n)))
                d.dr = rmax / n
            elif via == 'relengthed':
                d = P.Domain(length=n // 2 + 3, dr=rmax / n)
                d.to_real(d.to_fourier(np.ones(n // 2 + 3)))
                d.length = n
            else:
                d = P.Domain(length=n, dr=rmax / n)
            if len(d.r) != n or len(d.k) != n:
                out.skipped = 'domain-grid-miscount'
                return out
            if lev == 0:
                k_ref = d.k[:NK].copy()
            Fk = np.asarray(d.to_fourier(f(d.r)))[:NK]
            ex = F(d.k[:NK])        # each member is judged at its own k labels
            exf.append(ex)
            sc = float(np.max(np.abs(ex)))
            fwd.append(Fk)
            ef.append(float(np.max(np.abs(Fk - ex))) / sc)
            idx = base * 2 ** lev + 2 ** lev - 1       # the same physical r in every member
            fr = np.asarray(d.to_real(F(d.k)))[idx]
            exr = f(d.r[idx])
            scb = max(float(np.max(np.abs(exr))), abs(A) if name == 'sphere' else 0.0)
            bwd.append(fr)
            eb.append(float(np.max(np.abs(fr - exr))) / scb)
        out.info = {'dr_over_w': h, 'fwd_err': ef, 'bwd_err': eb}
        floor = 1e-11     # below this the error is round-off, ratios are meaningless

        def judge(direction, errs, vals, exact, scale, C, C2, ratio_hi, smooth):
            richardson = smooth
            smooth = True
            tag = sig + direction + '/'
            for lev, e in enumerate(errs):
                if e > C * h / 2 ** lev + floor:
                    out.fail(tag + 'error-not-O(dr)', '%s %s: relative error %.3g at dr=%.4g exceeds %.3g*(dr/w) (family %s, A=%r, w=%r, r_max=%r)' % (
                        name, direction, e, dr0 / 2 ** lev, C, name, A, w, rmax), errors=errs)
                    return
            for lev in (1, 2):
                if errs[lev - 1] < 100 * floor:
                    continue
                ratio = errs[lev] / errs[lev - 1]
                lo = 0.0       # an error that shrinks faster than first order still satisfies the statement
                hi = ratio_hi if smooth else 0.98
                if not (lo <= ratio <= hi):
                    out.fail(tag + 'error-does-not-halve', '%s %s: error ratio %.3f when dr is halved (errors %s), expected %.2f..%.2f' % (
                        name, direction, ratio, ['%.3g' % x for x in errs], lo, hi))
                    return
            if richardson:
                rich = 2 * vals[2] - vals[1]
                er = float(np.max(np.abs(rich - exact))) / scale
                if er > C2 * (h / 2) ** 2 + floor:
                    out.fail(tag + 'richardson-limit-differs', '%s %s: Richardson-extrapolated value differs from the closed form by %.3g '
                             '(allowed %.3g): the dr->0 limit is not the 3-D transform (prefactor?)' % (name, direction, er, C2 * (h / 2) ** 2))

        judge('forward', ef, fwd, 2 * exf[2] - exf[1], float(np.max(np.abs(exf[0]))), C_FWD, C2_FWD, 0.6, True)
        r_ref = (base + 1) * dr0
        exr = f(r_ref)
        judge('backward', eb, bwd, exr, max(float(np.max(np.abs(exr))), abs(A) if name == 'sphere' else 0.0), C_BWD_SPHERE if name == 'sphere' else C_BWD, C2_BWD, 0.65, name != 'sphere')
        # k -> 0: the lowest-k value tends to the volume integral
        k1 = float(k_ref[0])
        dev = abs(float(fwd[2][0]) - vol) / abs(vol)
        if dev > C_FWD * h / 4 + 2.0 * (k1 * w) ** 2 + floor:
            out.fail(sig + 'forward/k0-volume-integral', '%s: F(k_min=%.3g) = %r but the volume integral is %r' % (name, k1, float(fwd[2][0]), vol))
        return out


SUBS = [Refinement()]
