"""C09 -- closures equal their definitions and respect core, limit and purity rules."""
import numpy as np
from hypothesis import strategies as st

from . import oracles as O
from . import specs
from .core import Sub, Outcome, target

PID = 'C09'
SHARDS = {'quick': 4, 'thorough': 16}
RULE = ('Generated (closure class or alias, hard-core flag, grid r [uniform Domain-like or arbitrary increasing], gamma '
        'array [mixture of O(1) values, +-10^[-8,3] incl. overflow range, exact zeros], potential [smooth / hard-core step '
        'with high in {1e3,1e6,1e300} / mixture], sigma on/off/below/above the grid). Oracles: published relation outside '
        'the core (rel 1e-12 of the summed term magnitudes, inf/nan-consistent), exactly -1-gamma inside with the flag, '
        'weak-coupling limit |c+u| <= 4(|a|+|b|+1)^2 eps^2, elementwise-ness on sub-samples/permutations, input purity, '
        'alias identity; (reuse) one closure object with potential / sigma / gamma / grid length re-assigned between calls must equal a fresh object every time. Non-trivial = gamma not identically 0, u not identically 0 outside the core and, with the flag, '
        '>=1 grid point on each side of sigma; distinct = spec hash.')
ASSUMPTIONS = ['grid points in the open band (sigma, sigma+1e-6) are not judged here (contact rule is C10\'s subject)',
               'Martynov-Sarkisov: either published form (bridge sqrt(1+2 gamma) or sqrt(1+2(gamma-u))) is accepted']
CLASSES = {'PY': ('PercusYevick', 'PY'), 'HNC': ('HyperNettedChain', 'HNC'),
           'MSA': ('MeanSphericalApproximation', 'MSA'), 'MS': ('MartynovSarkisov', 'MS')}
KNOWN_MS = PID + '/definition/MS/shipped-expression-sqrt(gamma-u+0.5)-missing-factor-sqrt2'


def make_closure(which, alias, flag):
    P = target()
    cls = getattr(P.closure, CLASSES[which][1 if alias else 0])
    # "no hard-core flag" is written the way users write it: by leaving the argument out (the documented default is False)
    return cls(apply_hard_core=True) if flag else cls()


def grid(spec):
    g = spec['grid']
    if g['kind'] == 'uniform':
        return np.arange(1, g['n'] + 1) * g['dr']
    steps = np.asarray(g['steps'], dtype=float)
    return g['r0'] + np.concatenate([[0.0], np.cumsum(steps)])


def build_u(spec, r):
    u = spec['u']
    n = len(r)
    if u['kind'] == 'zero':
        return np.zeros(n)
    if u['kind'] == 'exp':
        return u['eps'] * np.exp(-(r - u['s']) / u['alpha'])
    if u['kind'] == 'list':
        v = np.asarray(u['values'], dtype=float)
        return np.tile(v, -(-n // len(v)))[:n].copy()
    if u['kind'] == 'core':
        tail = u['eps'] * np.exp(-(r - u['s']) / u['alpha'])
        return np.where(r <= u['s'], u['high'], tail)
    raise ValueError(u['kind'])


def build_gamma(spec, n, u=None):
    v = np.asarray(spec['gamma'], dtype=float)
    g = np.tile(v, -(-n // len(v)))[:n].copy()
    if u is not None and spec.get('gamma_tracks_u'):
        # gamma of the size of the potential itself: gamma - u stays moderate although both are large (the regime of a steep but
        # finite repulsion next to a neighbour that pushes gamma up), so exp(gamma - u) is an ordinary number
        with np.errstate(all='ignore'):
            g = np.where(np.isfinite(u) & (np.abs(u) < 1e4), u + np.clip(g, -30.0, 30.0), g)
    return g


def spec_strategy():
    gval = st.one_of(specs.fl(-3, 3), specs.fl(-3, 3), st.just(0.0), specs.signed(-8, 3), st.sampled_from([-0.5, -1.0, 1.0, 700.0, -700.0, 800.0]))
    uni = st.builds(lambda n, dr: {'kind': 'uniform', 'n': n, 'dr': dr}, st.integers(1, 48), st.sampled_from([0.1, 0.05, 0.25, 0.2, 0.075, 0.3]))
    arb = st.builds(lambda r0, steps: {'kind': 'steps', 'r0': r0, 'steps': steps}, specs.fl(0.01, 2.0),
                    st.lists(specs.fl(0.01, 1.0), min_size=0, max_size=30))
    u = st.one_of(
        st.just({'kind': 'zero'}),
        st.builds(lambda e, s, a: {'kind': 'exp', 'eps': e, 's': s, 'alpha': a}, specs.signed(-3, 1), specs.fl(0.2, 3), specs.fl(0.1, 3)),
        st.lists(st.one_of(specs.fl(-5, 5), specs.signed(-8, 3), specs.fl(20, 800, 4)), min_size=1, max_size=12).map(lambda v: {'kind': 'list', 'values': v}),
        st.builds(lambda e, s, a, h: {'kind': 'core', 'eps': e, 's': s, 'alpha': a, 'high': h}, specs.signed(-3, 1), specs.fl(0.2, 3),
                  specs.fl(0.1, 3), st.sampled_from([1e3, 1e6, 1e300])))
    sigma = st.one_of(st.builds(lambda i: {'on': i}, st.integers(0, 60)), specs.fl(0.0, 6.0).map(lambda v: {'at': v}),
                      st.just({'at': 0.0}), st.just({'at': 1e9}))
    return st.fixed_dictionaries({'closure': st.sampled_from(sorted(CLASSES)), 'alias': st.booleans(), 'flag': st.booleans(),
                                  'grid': st.one_of(uni, arb), 'gamma': st.lists(gval, min_size=1, max_size=24), 'u': u, 'sigma': sigma,
                                  'sub_seed': st.integers(0, 2 ** 31 - 1), 'gamma_tracks_u': st.sampled_from([False, False, True])})


def sigma_of(spec, r):
    s = spec['sigma']
    if 'on' in s:
        return float(r[s['on'] % len(r)])
    return float(s['at'])


def classify_ms(c, gamma, u, mask):
    """which Martynov-Sarkisov expression reproduces c on mask"""
    for name in ('MS-A', 'MS-B', 'MS-shipped-wrong'):
        val, mag = O.closure_terms(name, gamma, u)
        if np.all(O.same(c[mask], val[mask], mag[mask])):
            return name
    return None


def definition_check(which, clo, r, gamma, u, sigma, flag, out, sig):
    """(1) of the design: value outside the core / -1-gamma inside"""
    with np.errstate(all='ignore'):
        c = clo.calculate(r, gamma)
    c = np.asarray(c)
    if c.shape != gamma.shape or c.dtype.kind != 'f':
        out.fail(sig + 'result-shape', 'closure returned shape %s dtype %s for gamma of shape %s' % (c.shape, c.dtype, gamma.shape))
        return None
    if flag:
        ins = r <= sigma
        outs = r >= sigma + O.BAND
        if np.any(ins) and not np.array_equal(c[ins], -1.0 - gamma[ins], equal_nan=True):
            out.fail(sig + 'inside-core-not-minus-one-minus-gamma', '%s(apply_hard_core=True): c != -1-gamma at r<=sigma' % which,
                     sigma=sigma, r=r[ins][:5], c=c[ins][:5], gamma=gamma[ins][:5])
    else:
        outs = np.ones(len(r), dtype=bool)
    if np.any(outs):
        if which == 'MS':
            m = classify_ms(c, gamma, u, outs)
            if m == 'MS-shipped-wrong':
                out.fail(KNOWN_MS, 'MartynovSarkisov evaluates exp(sqrt(gamma-u+0.5)-1)-1-gamma, not a Martynov-Sarkisov relation '
                         '(c(0,0)=%.4f instead of 0)' % (np.exp(np.sqrt(0.5) - 1) - 1))
            elif m is None:
                out.fail(sig + 'definition/MS/outside-core-formula', 'MartynovSarkisov output matches neither published MS form nor the previously recorded expression')
        else:
            val, mag = O.closure_terms(which, gamma, u)
            ok = O.same(c[outs], val[outs], mag[outs])
            if not np.all(ok):
                i = int(np.flatnonzero(~ok)[0])
                out.fail(sig + 'definition/%s/outside-core-formula' % which,
                         '%s: c differs from the published relation outside the core (c=%r expected %r at gamma=%r u=%r)' % (
                             which, c[outs][i], val[outs][i], gamma[outs][i], u[outs][i]))
    return c


class Definition(Sub):
    name = 'definition'
    doc = 'published relation outside the core, -1-gamma inside with the flag, elementwise-ness, purity, aliases'
    budget = {'quick': 2400, 'thorough': 160000}

    def strategy(self, tier):
        return spec_strategy()

    def check(self, spec):
        P = target()
        out = Outcome()
        sig = PID + '/'
        which, flag = spec['closure'], spec['flag']
        r = grid(spec)
        n = len(r)
        u = build_u(spec, r)
        gamma = build_gamma(spec, n, u)
        sigma = sigma_of(spec, r)
        clo = make_closure(which, spec['alias'], flag)
        base = getattr(P.closure, CLASSES[which][0])
        if not isinstance(clo, base) or not isinstance(clo, P.closure.AtomicClosure):
            out.fail(sig + 'alias-not-subclass', 'alias of %s is not a subclass of it' % which)
        clo.potential = u
        clo.sigma = sigma
        r0, g0, u0 = r.copy(), gamma.copy(), u.copy()
        c = definition_check(which, clo, r, gamma, u, sigma, flag, out, sig)
        if c is None:
            return out
        c = c.copy()
        # (4) purity
        if not (np.array_equal(r, r0) and np.array_equal(gamma, g0)):
            out.fail(sig + 'purity/input-modified', '%s.calculate modified r or gamma' % which)
        if not np.array_equal(np.asarray(clo.potential), u0) or not np.array_equal(u, u0):
            out.fail(sig + 'purity/potential-modified', '%s.calculate modified closure.potential' % which)
        if clo.sigma != sigma or clo.apply_hard_core != flag:
            out.fail(sig + 'purity/parameters-modified', '%s.calculate changed sigma / apply_hard_core' % which)
        # a second call with another gamma, then the first again: no leak through the cached value
        rng = np.random.Generator(np.random.PCG64(spec['sub_seed']))
        with np.errstate(all='ignore'):
            g2 = gamma * -0.5 + 0.25
            c2 = np.array(clo.calculate(r, g2))
            c_again = np.array(clo.calculate(r, gamma))
            fresh = make_closure(which, spec['alias'], flag)
            fresh.potential = u.copy()
            fresh.sigma = sigma
            c2_fresh = np.asarray(fresh.calculate(r.copy(), g2.copy()))
        if not np.array_equal(c2, c2_fresh, equal_nan=True):
            out.fail(sig + 'purity/state-leak', 'a second call with another gamma gives a result that differs from a fresh closure object (cached value leaks)')
        if not np.array_equal(c_again, c, equal_nan=True):
            out.fail(sig + 'purity/state-leak', 'the same input gives a different result after an intermediate call with another gamma')
        # the same data as strided views of longer buffers: identical result, buffers untouched
        bufs = [np.empty(2 * n) for _ in range(3)]
        for b_, src in zip(bufs, (r, gamma, u)):
            b_[0::2] = src
            b_[1::2] = 123.5
        clo_v = make_closure(which, spec['alias'], flag)
        clo_v.potential = bufs[2][0::2]
        clo_v.sigma = sigma
        with np.errstate(all='ignore'):
            c_v = np.asarray(clo_v.calculate(bufs[0][0::2], bufs[1][0::2]))
        if c_v.shape != c.shape or not np.array_equal(c_v, c, equal_nan=True):
            out.fail(sig + 'depends-on-memory-layout', '%s gives a different result for strided views of r / gamma / potential than for contiguous arrays' % which)
        if any(not np.all(b_[1::2] == 123.5) for b_ in bufs) or not (np.array_equal(bufs[0][0::2], r) and np.array_equal(bufs[1][0::2], gamma) and np.array_equal(bufs[2][0::2], u)):
            out.fail(sig + 'purity/input-modified', '%s.calculate wrote into the buffer behind a strided view of its inputs' % which)
        # write-protected inputs (a closure never needs to write into r, gamma or the potential) and integer-typed gamma
        ro = [a.copy() for a in (r, gamma, u)]
        for a in ro:
            a.setflags(write=False)
        clo_r = make_closure(which, spec['alias'], flag)
        clo_r.potential = ro[2]
        clo_r.sigma = sigma
        try:
            with np.errstate(all='ignore'):
                c_r = np.asarray(clo_r.calculate(ro[0], ro[1]))
            if c_r.shape != c.shape or not np.array_equal(c_r, c, equal_nan=True):
                out.fail(sig + 'depends-on-memory-layout', '%s gives a different result for write-protected inputs' % which)
        except (ValueError, TypeError) as exc:
            out.fail(sig + 'purity/needs-writable-inputs', '%s.calculate raised %s: %s for write-protected r / gamma / potential' % (which, type(exc).__name__, exc))
        if float(np.max(np.abs(gamma))) < 1e9:
            gi = np.rint(gamma).astype(np.int64)
            clo_i = make_closure(which, spec['alias'], flag)
            clo_i.potential = u.copy()
            clo_i.sigma = sigma
            clo_f = make_closure(which, spec['alias'], flag)
            clo_f.potential = u.copy()
            clo_f.sigma = sigma
            try:
                with np.errstate(all='ignore'):
                    c_i = np.asarray(clo_i.calculate(r.copy(), gi))
                    c_f = np.asarray(clo_f.calculate(r.copy(), gi.astype(float)))
                if c_i.shape != c_f.shape or not np.array_equal(np.asarray(c_i, dtype=float), c_f, equal_nan=True):
                    out.fail(sig + 'depends-on-dtype', '%s gives a different result for integer-typed gamma than for the same values as floats' % which)
            except (ValueError, TypeError) as exc:
                out.fail(sig + 'depends-on-dtype', '%s.calculate raised %s: %s for integer-typed gamma' % (which, type(exc).__name__, exc))
        # (3) elementwise: random sub-sample in random order
        if n >= 2:
            m = int(rng.integers(1, n + 1))
            idx = rng.permutation(n)[:m]
            clo2 = make_closure(which, False, flag)
            clo2.potential = u[idx].copy()
            clo2.sigma = sigma
            with np.errstate(all='ignore'):
                c_sub = np.asarray(clo2.calculate(r[idx].copy(), gamma[idx].copy()))
            ref = c[idx]
            with np.errstate(all='ignore'):
                close = np.abs(c_sub - ref) <= 4 * O.EPS * np.abs(ref)
            okm = close | (np.isnan(c_sub) & np.isnan(ref)) | (c_sub == ref)
            if c_sub.shape != ref.shape or not np.all(okm):
                out.fail(sig + 'elementwise', '%s: value at a point changes when the other points of the array change' % which)
        # (5) alias == base class, bit for bit
        other = make_closure(which, not spec['alias'], flag)
        other.potential = u.copy()
        other.sigma = sigma
        with np.errstate(all='ignore'):
            c_o = np.asarray(other.calculate(r.copy(), gamma.copy()))
        if not np.array_equal(c_o, c, equal_nan=True):
            out.fail(sig + 'alias-differs', 'alias and base class of %s give different output' % which)
        outs = (r >= sigma + O.BAND) if flag else np.ones(n, dtype=bool)
        ins = r <= sigma
        out.nontrivial = bool(np.any(gamma != 0) and np.any(u[outs] != 0) and (not flag or (np.any(ins) and np.any(outs))))
        out.label(which, 'flag' if flag else 'noflag', 'u=' + spec['u']['kind'], 'grid=' + spec['grid']['kind'])
        if spec.get('gamma_tracks_u') and np.any((np.abs(u) >= 30) & (np.abs(u) < 1e4)):
            out.label('gamma~u>=30')
        if flag:
            out.label('core-points' if np.any(ins) else 'no-core-points')
        if not np.all(np.isfinite(c)):
            out.label('nonfinite-output')
        return out


class WeakCoupling(Sub):
    name = 'weak-coupling'
    doc = 'gamma = eps*a, u = eps*b: |c + eps*b| <= 4(|a|+|b|+1)^2 eps^2 for eps in 1e-2,1e-3,1e-4 (so correlations can decay)'
    budget = {'quick': 800, 'thorough': 48000}

    def strategy(self, tier):
        return st.fixed_dictionaries({'closure': st.sampled_from(sorted(CLASSES)), 'alias': st.booleans(), 'flag': st.booleans(),
                                      'a': st.lists(specs.fl(-3, 3), min_size=1, max_size=12), 'b': st.lists(specs.fl(-3, 3), min_size=1, max_size=12),
                                      'dr': st.sampled_from([0.1, 0.05, 0.25]), 'sigma': specs.fl(0.0, 1.0)})

    def check(self, spec):
        out = Outcome()
        which = spec['closure']
        n = max(len(spec['a']), len(spec['b']))
        r = np.arange(1, n + 1) * spec['dr']
        a = np.resize(np.asarray(spec['a'], dtype=float), n)
        b = np.resize(np.asarray(spec['b'], dtype=float), n)
        sigma = spec['sigma']
        outs = (r >= sigma + O.BAND) if spec['flag'] else np.ones(n, dtype=bool)
        for eps in (1e-2, 1e-3, 1e-4):
            clo = make_closure(which, spec['alias'], spec['flag'])
            clo.potential = eps * b
            clo.sigma = sigma
            c = np.asarray(clo.calculate(r, eps * a))
            bound = 4.0 * (np.abs(a) + np.abs(b) + 1.0) ** 2 * eps * eps
            bad = outs & ~(np.abs(c + eps * b) <= bound)
            if np.any(bad):
                if which == 'MS' and classify_ms(c, eps * a, eps * b, outs) == 'MS-shipped-wrong':
                    out.fail(KNOWN_MS, 'MartynovSarkisov violates the weak-coupling limit: c(0,0) = -0.254 (shipped expression)')
                else:
                    i = int(np.flatnonzero(bad)[0])
                    out.fail(PID + '/weak-coupling/' + which, '%s: c=%r for gamma=%r u=%r: not -u + O(2nd order)' % (which, c[i], eps * a[i], eps * b[i]))
                break
        out.nontrivial = bool(np.any(a[outs] != 0) and np.any(b[outs] != 0))
        out.label(which, 'flag' if spec['flag'] else 'noflag')
        return out


class Reuse(Sub):
    name = 'reuse'
    doc = 'one closure object re-used: potential / sigma / gamma (and the grid length) re-assigned between calls; every call must equal a fresh object'
    budget = {'quick': 800, 'thorough': 48000}

    def strategy(self, tier):
        base = spec_strategy()
        step = st.fixed_dictionaries({'gamma': base.map(lambda s: s['gamma']), 'u': base.map(lambda s: s['u']), 'sigma': base.map(lambda s: s['sigma']),
                                      'keep_u': st.booleans(), 'shorter': st.sampled_from([0, 0, 0, 1, 3]),
                                      # how the potential reaches the re-used object: a new array assigned to the attribute, the attribute
                                      # left alone when the potential does not change (only sigma / gamma do), or the stored array overwritten in place
                                      'how': st.sampled_from(['assign', 'assign', 'leave', 'inplace']),
                                      # the same object on another grid of the SAME length (a re-spaced domain), with sigma kept or not
                                      'rscale': st.sampled_from([1.0, 1.0, 1.0, 2.0, 0.5, 1.5]), 'keep_sigma': st.booleans()})
        return st.fixed_dictionaries({'closure': st.sampled_from(sorted(CLASSES)), 'alias': st.booleans(), 'flag': st.booleans(),
                                      'grid': base.map(lambda s: s['grid']), 'steps': st.lists(step, min_size=2, max_size=5)})

    def check(self, spec):
        out = Outcome()
        sig = PID + '/reuse/'
        which, flag = spec['closure'], spec['flag']
        r_full = grid(spec)
        clo = make_closure(which, spec['alias'], flag)
        prev_u = None
        changed_u_same_len = False
        last_len = None
        prev_sigma = None
        last_scale = 1.0
        for i, stp in enumerate(spec['steps']):
            n = max(1, len(r_full) - stp['shorter'])
            r = r_full[:n].copy() * stp.get('rscale', 1.0)
            gamma = build_gamma(stp, n)
            if stp['keep_u'] and prev_u is not None and len(prev_u) == n:
                u = prev_u
            else:
                u = build_u(stp, r)
            sigma = sigma_of(stp, r)
            if stp.get('keep_sigma') and prev_sigma is not None:
                sigma = prev_sigma
                if last_len == n and stp.get('rscale', 1.0) != last_scale:
                    out.label('same-length-same-sigma-other-grid')
            if prev_u is not None and len(prev_u) == n and not np.array_equal(prev_u, u):
                changed_u_same_len = True
            how = stp.get('how', 'assign')
            cur = getattr(clo, 'potential', None)
            if how == 'leave' and u is prev_u and isinstance(cur, np.ndarray) and cur.shape == u.shape:
                out.label('potential-attribute-left-alone')
            elif how == 'inplace' and isinstance(cur, np.ndarray) and cur.shape == u.shape:
                cur[...] = u
                out.label('potential-overwritten-in-place')
            else:
                clo.potential = u.copy()
            clo.sigma = sigma
            fresh = make_closure(which, spec['alias'], flag)
            fresh.potential = u.copy()
            fresh.sigma = sigma
            with np.errstate(all='ignore'):
                c = np.array(clo.calculate(r.copy(), gamma.copy()))
                cf = np.array(fresh.calculate(r.copy(), gamma.copy()))
            if c.shape != cf.shape or not np.array_equal(c, cf, equal_nan=True):
                out.fail(sig + 'result-depends-on-earlier-calls', '%s(apply_hard_core=%s): call %d on a re-used closure object (potential / sigma / gamma re-assigned) differs '
                         'from a fresh object with the same settings' % (which, flag, i + 1), step=i, n=n, same_length_as_before=(last_len == n))
                break
            prev_u = u
            last_len = n
            prev_sigma = sigma
            last_scale = stp.get('rscale', 1.0)
        out.nontrivial = changed_u_same_len
        out.label(which, 'flag' if flag else 'noflag', 'potential-changed-same-length' if changed_u_same_len else 'no-same-length-change')
        return out


SUBS = [Definition(), WeakCoupling(), Reuse()]
