"""C02 -- solutions reproduce exact results: PY hard spheres (Wertheim-Thiele) and the dilute limit."""
import math

import numpy as np
from hypothesis import strategies as st

from . import oracles as O
from . import specs
from . import systems as S
from .core import Sub, Outcome, target

PID = 'C02'
SHARDS = {'quick': 8, 'thorough': 16}
RULE = ('(wertheim-thiele) one-component hard spheres, PY with and without the hard-core flag, eta in [0.02,0.47] (continuation in eta; fresh Systems or '
        'one System swept over diameter / density / domain), '
        'r_max in {10.24, 20.48}, base dr in {0.04, 0.02}, refinement family dr, dr/2, dr/4: contact value (linear extrapolation of the '
        'first two grid points outside the core), S(k) at the 64 lowest k (shared by the family) against 1/(1-rho c_WT(k)) with c_WT(k) by '
        'Gauss-Legendre quadrature, S(k_min) against (1-eta)^4/(1+2eta)^2, c(r) at fixed r in {0.2,0.4,0.8,1.52} (grid points of every member) (on a copy) -- each '
        'with (i) error <= C(eta) dr, (ii) halving ratio <= 0.6 (faster is fine), (iii) Richardson value within C2(eta) dr^2. (dilute) every '
        'shipped potential with generated parameters, kT in [0.7,3], closure PY / HNC / MSA+flag, density family rho0, rho0/10, rho0/100 '
        '(rho0 in [1e-3,1e-2]) plus one really vanishing density in [1e-12,1e-7] on grids dr and dr/2: |g - g_ref| <= K rho pointwise with g_ref = exp(-u/kT) (PY,HNC) or 1-u/kT outside '
        'the core (MSA), deviation linear in rho (ratio per decade in [5,20], demanded where the deviation is below 5 % of the reference), second_virial against -2 pi int (g_ref-1) r sin(kr)/k dr by '
        'adaptive quadrature (same 3-point k->0 extrapolation applied to the exact transform; also unextrapolated at k_min) within K1 rho + K2 dr '
        'with Richardson limit. (dilute-mixture) two atomic species, diameters 1 and 1 / 1.5 / 2, compositions 0.01 .. 0.8, one generated potential and one '
        'closure (PY / HNC, flag or not) per pair, kT in [0.7,3], total densities rho0, rho0/10 and one in [1e-12,1e-7]: every g_ab (read as (a,b) and (b,a)) '
        'within K_ab rho_total of exp(-u_ab/kT), K_ab = max_c max|f_ac| int|f_cb| max(1, max g_ref). Non-trivial = all family members converged and eta >= 0.05 '
        '(WT) / potential not identically zero outside the core (dilute); distinct = spec hash.')
ASSUMPTIONS = ['constants C(eta) = 0.5+12 eta/(1-eta)^1.5, C2(eta) = 0.03+4 eta^2/(1-eta)^3 are >= 3x the worst value observed over the generator range '
               '(observed: error/dr up to 4.3 and Richardson/dr^2 up to 1.1 at eta=0.43; ratios 0.455..0.514); c(r) is judged with the looser Richardson constant '
               '0.6+2 C2(eta) (observed 0.13..0.75) and halving ratio 0.3..0.7 (errors of different sign at different r); the halving of the second-virial error is '
               'only demanded when the error exceeds 2% (below that the O(dr) coefficient nearly cancels for some potentials)',
               'Martynov-Sarkisov is excluded from the dilute limit (its formula is C09\'s known finding)',
               'family members that do not converge make the case "not explored"']
EPS = np.finfo(float).eps


def c_eta(eta):
    return 0.5 + 12.0 * eta / (1.0 - eta) ** 1.5


def c2_eta(eta):
    return 0.03 + 4.0 * eta ** 2 / (1.0 - eta) ** 3


def hs_system(flag):
    """a System that has already been used once with another diameter, density and domain (parameter sweeps re-use one System)"""
    P = target()
    s = P.System(['A'])
    s.domain = P.Domain(length=64, dr=0.25)
    s.density['A'] = 0.01
    s.diameter['A'] = 0.5
    s.potential['A', 'A'] = P.potential.HardSphere()
    s.closure['A', 'A'] = P.closure.PercusYevick(apply_hard_core=flag)
    s.omega['A', 'A'] = P.omega.SingleSite()
    S.quiet(s.createPRISM)
    s.diameter['A'] = 1.0
    return s


def solve_hs(eta, L, dr, flag, guess=None, swept=None):
    P = target()
    if swept is not None:
        s = swept
        s.domain = P.Domain(length=L, dr=dr)
        s.density['A'] = 6.0 * eta / math.pi
    else:
        s = P.System(['A'])
        s.domain = P.Domain(length=L, dr=dr)
        s.density['A'] = 6.0 * eta / math.pi
        s.diameter['A'] = 1.0
        s.potential['A', 'A'] = P.potential.HardSphere()
        s.closure['A', 'A'] = P.closure.PercusYevick(apply_hard_core=flag)
        s.omega['A', 'A'] = P.omega.SingleSite()
    pr = S.quiet(s.createPRISM)
    try:
        res = S.quiet(pr.solve, guess=guess, method='krylov', options={'disp': False, 'fatol': 1e-9, 'maxiter': 200})
    except Exception as exc:   # noqa
        if isinstance(exc, (ArithmeticError, ValueError)) or type(exc).__name__ in ('LinAlgError', 'NoConvergence'):
            return pr, None
        raise
    return pr, res


def refinement_judge(out, sig, what, errs, vals, exact, scale, C, C2, dr0, detail, ratio=(0.4, 0.6)):
    """bound, halving ratio, Richardson for one observable over the family"""
    floor = 1e-7       # solver tolerance level (fatol 1e-9 on r*gamma)
    ratio_bounds = ratio
    for lev, e in enumerate(errs):
        if e > C * dr0 / 2 ** lev + floor:
            out.fail(sig + what + '/error-not-O(dr)', '%s: relative error %.3g at dr=%.4g exceeds C*dr = %.3g (%s)' % (what, e, dr0 / 2 ** lev, C * dr0 / 2 ** lev, detail),
                     errors=errs)
            return
    for lev in (1, 2):
        if errs[lev - 1] < 1e-5:
            continue
        lo_hi = ratio_bounds
        ratio = errs[lev] / errs[lev - 1]
        # only the upper limit is demanded: an error that shrinks FASTER than first order still satisfies the statement
        if not (ratio <= lo_hi[1]):
            out.fail(sig + what + '/error-does-not-halve', '%s: error ratio %.3f when dr is halved (errors %s) (%s)' % (what, ratio, ['%.3g' % x for x in errs], detail))
            return
    rich = 2 * np.asarray(vals[2]) - np.asarray(vals[1])
    er = float(np.max(np.abs(rich - exact))) / scale
    if er > C2 * dr0 ** 2 + floor:
        out.fail(sig + what + '/richardson-limit-differs', '%s: Richardson-extrapolated value differs from the analytic result by %.3g (allowed %.3g): the dr->0 '
                 'limit is not the exact solution (%s)' % (what, er, C2 * dr0 ** 2, detail))


class WertheimThiele(Sub):
    name = 'wertheim-thiele'
    doc = 'PY hard spheres on a dr, dr/2, dr/4 family vs the analytic Wertheim-Thiele solution (contact value, S(k), S(0), c(r))'
    budget = {'quick': 96, 'thorough': 8000}
    shrink = {'quick': False, 'thorough': False}

    def strategy(self, tier):
        return st.fixed_dictionaries({'eta': specs.fl(0.02, 0.47, 4), 'rmax': st.sampled_from([10.24, 20.48]), 'dr0': st.sampled_from([0.04, 0.02]),
                                      'flag': st.booleans(), 'via': st.sampled_from(['fresh', 'swept', 'swept-deferred'])})

    def check(self, spec):
        P = target()
        out = Outcome()
        sig = PID + '/wt/'
        eta, rmax, dr0, flag = spec['eta'], spec['rmax'], spec['dr0'], spec['flag']
        rho = 6.0 * eta / math.pi
        fam = []
        solved = []
        swept = hs_system(flag) if spec.get('via') in ('swept', 'swept-deferred') else None

        def observe(pr, dr):
            r = pr.sys.domain.r
            g = np.asarray(S.quiet(P.calculate.pair_correlation, pr)['A', 'A'], dtype=float)
            i1 = int(np.flatnonzero(r > 1.0 + 1e-9)[0])
            Sk = np.asarray(S.quiet(P.calculate.structure_factor, pr)['A', 'A'], dtype=float)[:64]
            k = np.array(pr.sys.domain.k[:64])
            cc = pr.directCorr.get_copy() if hasattr(pr.directCorr, 'get_copy') else None
            S.quiet(pr.sys.domain.MatrixArray_to_real, cc)
            c = np.asarray(cc['A', 'A'], dtype=float)
            idx = [int(round(x / dr)) - 1 for x in (0.2, 0.4, 0.8, 1.52)]
            return ({'gc': 2 * g[i1] - g[i1 + 1], 'S': Sk, 'k': k, 'c': c[idx], 'r': r[idx], 'inside': float(np.max(np.abs(g[r <= 1.0])))})

        for lev in range(3):
            L = int(round(rmax / dr0)) * 2 ** lev
            dr = rmax / L
            guess, pr = None, None
            for e in (0.25 * eta, 0.5 * eta, 0.75 * eta, eta):
                pr, res = solve_hs(e, L, dr, flag, guess, swept)
                if res is None or not res.success:
                    out.skipped = 'not-converged'
                    return out
                guess = np.array(res.x)
            solved.append((pr, dr))
            if spec.get('via') != 'swept-deferred':
                fam.append(observe(pr, dr))
        if spec.get('via') == 'swept-deferred':
            # a sweep that keeps the solved objects and looks at them after the loop, when the System has long moved on to other
            # densities and another domain: a solved object is a snapshot
            # (the sweep goes on: another density, another diameter and a re-spaced domain before the stored objects are looked at)
            swept.density['A'] = 0.37 * rho
            swept.diameter['A'] = 1.3
            swept.domain.dr = 1.7 * swept.domain.dr
            fam = [observe(pr_, dr_) for pr_, dr_ in solved]
        out.nontrivial = eta >= 0.05
        out.label('system=' + spec.get('via', 'fresh'), 'flag' if flag else 'no-flag', 'eta<0.2' if eta < 0.2 else ('eta<0.35' if eta < 0.35 else 'eta>=0.35'))
        detail = 'eta=%.4g r_max=%g dr0=%g flag=%s' % (eta, rmax, dr0, flag)
        C, C2 = c_eta(eta), c2_eta(eta)
        gx = O.wt_contact(eta)
        refinement_judge(out, sig, 'contact-value', [abs(f['gc'] - gx) / gx for f in fam], [f['gc'] for f in fam], gx, gx, C, C2, dr0, detail)
        Sx = 1.0 / (1.0 - rho * O.wt_c_fourier(fam[0]['k'], eta))
        refinement_judge(out, sig, 'S(k)', [float(np.max(np.abs(f['S'] - Sx) / np.abs(Sx))) for f in fam], [f['S'] / Sx for f in fam], 1.0, 1.0, C, C2, dr0, detail)
        S0 = O.wt_s0(eta)
        k1 = float(fam[0]['k'][0])
        s0_err = abs(fam[2]['S'][0] - S0) / S0
        if s0_err > C * dr0 / 4 + 3.0 * k1 ** 2 + 1e-7:
            out.fail(sig + 'S(0)', 'S(k_min=%.3g) = %r, compressibility value (1-eta)^4/(1+2eta)^2 = %r (%s)' % (k1, float(fam[2]['S'][0]), S0, detail))
        cx = O.wt_c_real(fam[0]['r'], eta)
        c0 = abs(float(O.wt_c_real(np.array([1e-9]), eta)[0]))
        refinement_judge(out, sig, 'c(r)', [float(np.max(np.abs(f['c'] - cx))) / c0 for f in fam], [f['c'] for f in fam], cx, c0, C, 0.6 + 2 * C2, dr0, detail, ratio=(0.4, 0.6))
        out.info = {'contact_err_over_dr': [abs(f['gc'] - gx) / gx / (dr0 / 2 ** i) for i, f in enumerate(fam)], 'C': C}
        return out


# ----------------------------------------------------------------------------- dilute limit

def dilute_spec():
    def pot(kT):
        # at vanishing density any interaction strength converges: tails up to 3 kT of either sign (where allowed)
        def stronger(d, f):
            p = {k: v for k, v in d[1].items()}
            if 'epsilon' in p:
                p['epsilon'] = float('%.4g' % (p['epsilon'] * f))
            return [d[0], p]
        return st.tuples(S._potential(kT), st.sampled_from([1.0, 1.0, 2.5, 5.0])).map(lambda t: stronger(*t))
    return st.tuples(specs.logfloat(-0.15, 0.48, 3), specs.logfloat(-3, -2, 3), st.sampled_from(['PY', 'HNC', 'MSA', 'PY']), st.booleans(),
                     st.sampled_from([0.05, 0.04, 0.1]), specs.logfloat(-12, -7, 3)).flatmap(
        lambda t: pot(t[0]).map(lambda p: {'kT': t[0], 'rho0': t[1], 'closure': t[2], 'flag': True if t[2] == 'MSA' else t[3], 'dr': t[4], 'potential': p,
                                          'rho_tiny': t[5]}))


def g_reference(spec, r):
    """(g_ref, judged mask, f = g_ref - 1)"""
    name, p = spec['potential'][0], spec['potential'][1]
    q = S.pot_params(name, p, 1.0)
    q.setdefault('high_value', 1e6)
    u, judged = O.potential(name, q, r, 1.0)
    u = u / spec['kT']
    with np.errstate(all='ignore'):
        if spec['closure'] == 'MSA':
            g = np.where(r <= 1.0, 0.0, 1.0 - u)
            judged = judged & ((r <= 1.0) | (r >= 1.0 + O.BAND))
        else:
            g = np.exp(-u)
            if spec['flag']:
                g = np.where(r <= 1.0, 0.0, g)
                judged = judged & ((r <= 1.0) | (r >= 1.0 + O.BAND))
    return g, judged


def b2_reference(spec, rmax, ks):
    """-2 pi int_0^rmax (g_ref-1) r sin(kr)/k dr at the given k (adaptive quadrature), and at k=0"""
    from scipy.integrate import quad
    pts = sorted(set([1.0, 2.0 ** (1.0 / 6.0), 2.0, 2.5, 0.5]))
    edges = [1e-9] + [p_ for p_ in pts if p_ < rmax] + [rmax]
    out = []
    for k in list(ks) + [0.0]:
        def integrand(x, k=k):
            g, _ = g_reference(spec, np.array([x]))
            w = x * x if k == 0.0 else x * math.sin(k * x) / k
            return (float(g[0]) - 1.0) * w
        tot = 0.0
        for a, b in zip(edges[:-1], edges[1:]):
            tot += quad(integrand, a, b, limit=400)[0]
        out.append(-2.0 * math.pi * tot)
    return np.array(out[:-1]), out[-1]


class Dilute(Sub):
    name = 'dilute'
    doc = 'vanishing density: g -> exp(-u/kT) (PY, HNC) or 1-u/kT outside the core (MSA), linear in rho; second_virial -> -2 pi int (g_ref-1) r^2 dr'
    budget = {'quick': 120, 'thorough': 16000}
    shrink = {'quick': False, 'thorough': False}

    def strategy(self, tier):
        return dilute_spec()

    def check(self, spec):
        P = target()
        out = Outcome()
        sig = PID + '/dilute/'
        rmax = 25.6
        name = spec['potential'][0]
        if name == 'Exponential':
            # "sufficiently fine domains": the tail of width alpha must be resolved by the grid
            spec = dict(spec, dr=min(spec['dr'], 0.05 if spec['potential'][1]['alpha'] <= 0.25 else 0.1))
        if name == 'WeeksChandlerAndersen':
            # the whole non-zero part of the WCA tail lies between sigma and 1.122 sigma: it is resolved by the grid only for dr << 0.12
            spec = dict(spec, dr=min(spec['dr'], 0.025))
        out.label('potential=' + name, 'closure=' + spec['closure'] + ('+flag' if spec['flag'] else ''))
        devs, b2 = {}, {}
        for dr in (spec['dr'], spec['dr'] / 2):
            L = int(round(rmax / dr))
            for m, rho in enumerate((spec['rho0'], spec['rho0'] / 10, spec['rho0'] / 100, spec.get('rho_tiny', 1e-9))):
                if dr != spec['dr'] and m != 3:
                    continue
                sysspec = {'types': ['A'], 'kT': spec['kT'], 'domain': {'length': L, 'dr': rmax / L}, 'dia': [1.0], 'rho': [rho], 'method': 'krylov',
                           'omega': {'0,0': ['SingleSite', {}]}, 'potential': {'0,0': spec['potential']}, 'closure': {'0,0': [spec['closure'], spec['flag']]}}
                s = S.build_system(sysspec)
                pr = S.quiet(s.createPRISM)
                try:
                    res = S.quiet(pr.solve, method='krylov', options={'disp': False, 'fatol': 1e-11, 'maxiter': 100})
                except Exception as exc:   # noqa
                    if isinstance(exc, (ArithmeticError, ValueError)) or type(exc).__name__ in ('LinAlgError', 'NoConvergence'):
                        out.skipped = 'not-converged'
                        return out
                    raise
                if not res.success:
                    out.skipped = 'not-converged'
                    return out
                r = pr.sys.domain.r
                g = np.asarray(S.quiet(P.calculate.pair_correlation, pr)['A', 'A'], dtype=float)
                gref, judged = g_reference(spec, r)
                if dr == spec['dr']:
                    devs[m] = (float(np.max(np.abs(g - gref)[judged])), rho, r, g, gref, judged)
                if m == 3:
                    # the really vanishing density: the O(rho) part of the error is negligible, what remains is discretisation
                    b2[dr] = float(S.quiet(P.calculate.second_virial, pr, extrapolate=True)['A', 'A'])
        # pointwise O(rho) with K from the Mayer function of the reference
        r = devs[0][2]
        gref, judged = devs[0][4], devs[0][5]
        f = np.where(judged, gref - 1.0, 0.0)
        M = float(np.max(np.abs(f))) * float(4 * math.pi * np.sum(np.abs(f) * r * r) * (r[1] - r[0]))
        K = 1.0 * M * max(1.0, float(np.max(gref[judged]))) + 1e-3
        out.nontrivial = bool(np.any(np.abs(f[r > 1.0 + 1e-6]) > 1e-6)) or name == 'HardSphere'
        for m in (0, 1, 2, 3):        # member 3: a really vanishing density (1e-12..1e-7)
            dev, rho = devs[m][0], devs[m][1]
            if dev > K * rho + 1e-9:
                i = int(np.argmax(np.where(devs[m][5], np.abs(devs[m][3] - devs[m][4]), 0.0)))
                out.fail(sig + 'g-not-reference-at-low-density', '%s/%s kT=%.3g rho=%.3g: |g - g_ref| = %.3g at r=%.4g (g=%r, g_ref=%r) exceeds K*rho = %.3g' % (
                    name, spec['closure'], spec['kT'], rho, dev, r[i], float(devs[m][3][i]), float(devs[m][4][i]), K * rho), potential=spec['potential'])
                return out
        for m in (1, 2):
            # "linear in rho" is a statement about the limit: the ratio is demanded where the larger of the two deviations is already
            # small against the reference itself (5 %), i.e. where the O(rho^2) term can only be a few per cent of the O(rho) term
            if devs[m - 1][0] > 1e-8 and devs[m][0] > 1e-10 and devs[m - 1][0] <= 0.05 * max(1.0, float(np.max(gref[judged]))):
                ratio = devs[m - 1][0] / devs[m][0]
                if not (5.0 <= ratio <= 20.0):
                    out.fail(sig + 'deviation-not-linear-in-density', '%s/%s: max|g-g_ref| goes %.3g -> %.3g when rho is divided by 10 (ratio %.2f)' % (
                        name, spec['closure'], devs[m - 1][0], devs[m][0], ratio))
                    return out
        # second virial coefficient at the lowest density.  The documented k->0 value is the quadratic through the three lowest
        # k (k_min = pi/r_max): the reference applies the same extrapolation to the exact transform of g_ref-1, so that only
        # discretisation in r and the O(rho) term remain; the unextrapolated value is compared with the exact transform at k_min.
        k3 = np.array(pr.sys.domain.k[:3])
        hk, b2_r_space = b2_reference(spec, rmax, k3)
        want = {True: float(O.lagrange0(k3, hk)), False: float(hk[0])}
        rho = devs[3][1]
        scale = abs(want[True]) + 2 * math.pi / 3
        e1 = abs(b2[spec['dr']] - want[True]) / scale
        e2 = abs(b2[spec['dr'] / 2] - want[True]) / scale
        K2 = 6.0 * max(1.0, float(np.max(np.abs(f))))
        out.info = {'b2_err_over_dr': e1 / spec['dr'], 'b2_ratio': (e2 / e1) if e1 > 0 else None, 'K': K, 'dev_over_Krho': devs[0][0] / (K * devs[0][1]),
                    'b2_extrapolation_vs_r_space_integral': abs(want[True] - b2_r_space) / scale}
        if e1 > K2 * spec['dr'] + 10 * M * rho + 1e-6:
            out.fail(sig + 'second-virial', '%s/%s kT=%.3g: second_virial = %r, -2 pi int (g_ref-1) r^2 dr (same k->0 extrapolation) = %r (rel. error %.3g, allowed %.3g)' % (
                name, spec['closure'], spec['kT'], b2[spec['dr']], want[True], e1, K2 * spec['dr'] + 10 * M * rho))
            return out
        if e1 > 0.02 and not (e2 / e1 <= 0.65):
            out.fail(sig + 'second-virial-error-does-not-halve', '%s/%s: second_virial error goes %.3g -> %.3g when dr is halved' % (name, spec['closure'], e1, e2))
        rich = abs(2 * b2[spec['dr'] / 2] - b2[spec['dr']] - want[True]) / scale
        if rich > 5.0 * max(1.0, float(np.max(np.abs(f)))) * spec['dr'] ** 2 + 10 * M * rho + 1e-6:
            out.fail(sig + 'second-virial-richardson', '%s/%s: Richardson-extrapolated second_virial differs from the quadrature value by %.3g' % (name, spec['closure'], rich))
        out.info['b2_rich_over_dr2'] = rich / spec['dr'] ** 2
        b2_first = float(S.quiet(P.calculate.second_virial, pr, extrapolate=False)['A', 'A'])
        ef = abs(b2_first - want[False]) / scale
        if ef > K2 * spec['dr'] / 2 + 10 * M * rho + 1e-6:
            out.fail(sig + 'second-virial-unextrapolated', '%s/%s: second_virial(extrapolate=False) = %r, -h_ref(k_min)/2 = %r' % (name, spec['closure'], b2_first, want[False]))
        return out


# ----------------------------------------------------------------------------- dilute limit of atomic mixtures

def pair_reference(desc, closure, flag, kT, r, sigma):
    """(g_ref, judged) of one pair of an atomic mixture: exp(-u_ab/kT) (PY, HNC), 0 inside a flagged core"""
    name, p = desc[0], desc[1]
    q = S.pot_params(name, p, sigma)
    q.setdefault('high_value', 1e6)
    u, judged = O.potential(name, q, r, sigma)
    u = u / kT
    with np.errstate(all='ignore'):
        g = np.exp(-u)
        if flag:
            g = np.where(r <= sigma, 0.0, g)
            judged = judged & ((r <= sigma) | (r >= sigma + O.BAND))
    return g, judged


class DiluteMixture(Sub):
    name = 'dilute-mixture'
    doc = 'two atomic species (different diameters, a potential per pair, kT != 1) at vanishing density: every g_ab -> exp(-u_ab/kT), deviation <= K_ab rho'
    budget = {'quick': 60, 'thorough': 8000}
    shrink = {'quick': False, 'thorough': False}

    def strategy(self, tier):
        def body(kT):
            def stronger(d, f):
                p = {k: v for k, v in d[1].items()}
                if 'epsilon' in p:
                    p['epsilon'] = float('%.4g' % (p['epsilon'] * f))
                return [d[0], p]
            pot = st.tuples(S._potential(kT), st.sampled_from([1.0, 1.0, 2.5])).map(lambda t: stronger(*t))
            clo = st.tuples(st.sampled_from(['PY', 'HNC', 'PY']), st.booleans()).map(list)
            return st.fixed_dictionaries({'kT': st.just(kT), 'd2': st.sampled_from([1.0, 1.5, 2.0]), 'x': st.sampled_from([0.5, 0.2, 0.8, 0.01]),
                                          'rho0': specs.logfloat(-3, -2, 3), 'rho_tiny': specs.logfloat(-12, -7, 3),
                                          'potential': st.lists(pot, min_size=3, max_size=3), 'closure': st.lists(clo, min_size=3, max_size=3),
                                          'names': st.sampled_from([['A', 'B'], ['B', 'A'], ['solvent', 'np']])})
        return specs.logfloat(-0.15, 0.48, 3).flatmap(body)

    def check(self, spec):
        P = target()
        out = Outcome()
        sig = PID + '/dilute-mixture/'
        dr, L = 0.05, 512
        names = list(spec['names'])
        dia = [1.0, spec['d2']]
        keys = ['0,0', '0,1', '1,1']
        sigma = {'0,0': 1.0, '0,1': (1.0 + spec['d2']) / 2.0, '1,1': spec['d2']}
        # the Exponential tail must be resolved by the grid (as in the one-component sub-check)
        pots = [[d[0], dict(d[1], alpha=max(d[1]['alpha'], 0.5))] if d[0] == 'Exponential' else d for d in spec['potential']]
        devs = {}
        for m, rho in enumerate((spec['rho0'], spec['rho0'] / 10, spec['rho_tiny'])):
            sysspec = {'types': names, 'kT': spec['kT'], 'domain': {'length': L, 'dr': dr}, 'dia': dia, 'rho': [rho * spec['x'], rho * (1 - spec['x'])], 'method': 'krylov',
                       'omega': {'0,0': ['SingleSite', {}], '0,1': ['NoIntra', {}], '1,1': ['SingleSite', {}]},
                       'potential': dict(zip(keys, pots)), 'closure': dict(zip(keys, spec['closure']))}
            pr = S.quiet(S.build_system(sysspec).createPRISM)
            try:
                res = S.quiet(pr.solve, method='krylov', options={'disp': False, 'fatol': 1e-11, 'maxiter': 100})
            except Exception as exc:   # noqa
                if isinstance(exc, (ArithmeticError, ValueError)) or type(exc).__name__ in ('LinAlgError', 'NoConvergence'):
                    out.skipped = 'not-converged'
                    return out
                raise
            if not res.success:
                out.skipped = 'not-converged'
                return out
            r = pr.sys.domain.r
            g = S.quiet(P.calculate.pair_correlation, pr)
            for kk in keys:
                i, j = [int(v) for v in kk.split(',')]
                gref, judged = pair_reference(pots[keys.index(kk)], spec['closure'][keys.index(kk)][0], spec['closure'][keys.index(kk)][1], spec['kT'], r, sigma[kk])
                for a, b in ((i, j), (j, i)):
                    gv = np.asarray(g[names[a], names[b]], dtype=float)
                    devs[(m, kk, a, b)] = (float(np.max(np.abs(gv - gref)[judged])), rho, gv, gref, judged)
        r = pr.sys.domain.r
        f = {}
        for kk in keys:
            gref, judged = devs[(0, kk, int(kk[0]), int(kk[2]))][3:5]
            f[kk] = np.where(judged, gref - 1.0, 0.0)
        f['1,0'] = f['0,1']
        vol = lambda x: float(4 * math.pi * np.sum(np.abs(x) * r * r) * dr)
        nontrivial = False
        for (m, kk, a, b), (dev, rho, gv, gref, judged) in sorted(devs.items()):
            # first order in density: g_ab = g_ref,ab (1 + sum_c rho_c int f_ac f_cb): |...| <= rho_total max_c max|f_ac| int|f_cb|
            M = max(float(np.max(np.abs(f['%d,%d' % (min(a, c_), max(a, c_))]))) * vol(f['%d,%d' % (min(c_, b), max(c_, b))]) for c_ in (0, 1))
            K = M * max(1.0, float(np.max(gref[judged]))) + 1e-3
            nontrivial = nontrivial or bool(np.any(np.abs(f[kk][r > sigma[kk] + 1e-6]) > 1e-6))
            if not (dev <= K * rho + 1e-9):
                i_ = int(np.argmax(np.where(judged, np.abs(gv - gref), 0.0)))
                out.fail(sig + 'g-not-reference-at-low-density', 'pair %s-%s (%s, %s%s) kT=%.3g rho_total=%.3g x=%.2g: |g - exp(-u/kT)| = %.3g at r=%.4g (g=%r, reference %r) exceeds K*rho = %.3g' % (
                    names[a], names[b], pots[keys.index(kk)][0], spec['closure'][keys.index(kk)][0], '+flag' if spec['closure'][keys.index(kk)][1] else '', spec['kT'], rho, spec['x'],
                    dev, r[i_], float(gv[i_]), float(gref[i_]), K * rho), potential=pots)
                return out
        out.nontrivial = nontrivial or spec['d2'] != 1.0
        out.label('d2=%g' % spec['d2'], 'x=%g' % spec['x'], *['pair-potential=' + d[0] for d in pots])
        return out


SUBS = [WertheimThiele(), Dilute(), DiluteMixture()]
