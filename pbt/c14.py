"""C14 -- PairTable and ValueTable behave as symmetric keyed maps with isolated values."""
import copy
import itertools

import numpy as np
from hypothesis import strategies as st

from .core import History, Sub, Outcome, target

PID = 'C14'
SHARDS = {'quick': 4, 'thorough': 16}
RULE = ('Hypothesis state machines over one PairTable (ops: set single pair in either order, set list x list / tuple keys, '
        'setUnset, apply in/out of place, in-place mutation of a stored value, mutation of the caller\'s original object, '
        'check, iterpairs with the three flag settings) and one ValueTable (set single/list, setUnset, check, iterate), each '
        'against a dict model compared after every step (values by deep equality, isolation by identity / np.shares_memory). '
        'Type lists of 1-4 names incl. multi-character names. All PairTable histories of depth <=3 over a 10-operation '
        'alphabet on 2 types are enumerated exhaustively. Non-trivial = a broadcast (multi-pair) assignment followed by an '
        'in-place mutation, or a setUnset after a partial assignment; distinct = hash of (types, trace).')
ASSUMPTIONS = ['ValueTable is not required to copy values (it never promises to); only PairTable isolation is judged',
               'values are lists, dicts, small ndarrays, numbers or strings (deep-copyable)']
NAMES = ['A', 'B', 'C', 'poly', 'nano', 'AB', 'A B', 'A,B', '1', 'a', 'AA', 'B-A']


def mkval(v):
    t = v['t']
    if t == 'list':
        return list(v['v'])
    if t == 'dict':
        return dict(v['v'])
    if t == 'arr':
        return np.array(v['v'], dtype=float)
    if t == 'nested':
        return {'inner': list(v['v']), 'n': 1}
    return v['v']


def deq(a, b):
    if isinstance(a, np.ndarray) or isinstance(b, np.ndarray):
        return isinstance(a, np.ndarray) and isinstance(b, np.ndarray) and a.shape == b.shape and np.array_equal(a, b)
    if isinstance(a, dict) and isinstance(b, dict):
        return a.keys() == b.keys() and all(deq(a[k], b[k]) for k in a)
    if isinstance(a, (list, tuple)) and isinstance(b, (list, tuple)):
        return type(a) == type(b) and len(a) == len(b) and all(deq(x, y) for x, y in zip(a, b))
    return type(a) == type(b) and a == b


def mutable(o):
    return isinstance(o, (list, dict, np.ndarray))


def mutate(o):
    if isinstance(o, list):
        o.append(99)
    elif isinstance(o, dict):
        if 'inner' in o and isinstance(o['inner'], list):
            o['inner'].append(7)
        else:
            o['mut%d' % len(o)] = len(o)
    elif isinstance(o, np.ndarray):
        o += 1.0
    else:
        return False
    return True


def aliased(a, b):
    if a is None or b is None or not (mutable(a) and mutable(b)):
        return False
    if a is b:
        return True
    if isinstance(a, np.ndarray) and isinstance(b, np.ndarray):
        return bool(np.shares_memory(a, b))
    if isinstance(a, dict) and isinstance(b, dict):
        return any(aliased(a[k], b[k]) for k in a if k in b)
    return False


def value_strategy():
    num = st.one_of(st.integers(-5, 5), st.floats(-5, 5, allow_nan=False).map(lambda x: round(x, 3)))
    return st.one_of(
        st.lists(num, max_size=3).map(lambda v: {'t': 'list', 'v': v}),
        st.dictionaries(st.sampled_from(['k', 'eps', 'sigma']), num, max_size=2).map(lambda v: {'t': 'dict', 'v': v}),
        st.lists(st.floats(-5, 5, allow_nan=False).map(lambda x: round(x, 3)), min_size=1, max_size=3).map(lambda v: {'t': 'arr', 'v': v}),
        st.lists(num, max_size=2).map(lambda v: {'t': 'nested', 'v': v}),
        num.map(lambda v: {'t': 'num', 'v': v}),
        st.sampled_from(['x', 'LJ', 'AB', '']).map(lambda v: {'t': 'str', 'v': v}),
        # values that are 'falsy' but perfectly valid table entries (an assigned entry is one that is not None)
        st.sampled_from([False, 0, 0.0]).map(lambda v: {'t': 'num', 'v': v}),
        st.just({'t': 'arr', 'v': [0.0]}))


FUNCS = {'identity': lambda v: v, 'wrap': lambda v: [v], 'tag': lambda v: {'was': v}, 'const': lambda v: 42}


class PairTableHistory(History):
    name = 'pairtable'
    doc = 'stateful machine on one symmetric PairTable vs dict-over-unordered-pairs model'
    budget = {'quick': 300, 'thorough': 64000}
    steps = {'quick': 25, 'thorough': 30}

    def params_strategy(self, tier):
        return st.lists(st.sampled_from(NAMES), min_size=1, max_size=4, unique=True).map(lambda t: {'types': t})

    def ops(self, tier):
        idx = st.integers(0, 3)
        keys = st.one_of(idx, st.lists(idx, min_size=1, max_size=3), st.lists(idx, min_size=1, max_size=3).map(lambda l: {'tuple': l}))
        return {
            'set': {'i': idx, 'j': idx, 'value': value_strategy()},
            'set_diag': {'i': idx, 'value': value_strategy()},
            'set_multi': {'k1': keys, 'k2': keys, 'value': value_strategy()},
            'set_unset': {'value': value_strategy()},
            'apply': {'func': st.sampled_from(sorted(FUNCS)), 'inplace': st.booleans()},
            'mutate_stored': {'i': idx, 'j': idx},
            'mutate_caller': {'which': st.integers(0, 50)},
            'check': {},
            'iterate': {'full': st.booleans(), 'diagonal': st.booleans()},
        }

    def init(self, params, out):
        P = target()
        types = list(params['types'])
        state = {'types': types, 'table': P.PairTable(types, 'tbl'), 'model': {}, 'caller': [],
                 'broadcast': False, 'mut_after_broadcast': False, 'partial_then_unset': False}
        for a in types:
            for b in types:
                state['model'][frozenset((a, b))] = None
        self.invariant(state, out)
        return state

    def _names(self, state, k):
        T = state['types']
        n = len(T)
        if isinstance(k, dict):
            return tuple(T[i % n] for i in k['tuple'])
        if isinstance(k, list):
            return [T[i % n] for i in k]
        return T[k % n]

    def apply(self, state, op, out):
        P = target()
        T, tbl, M = state['types'], state['table'], state['model']
        n = len(T)
        sig = PID + '/pairtable/'
        o = op['op']
        if o in ('set', 'set_diag'):
            a, b = T[op['i'] % n], T[op.get('j', op['i']) % n]
            v = mkval(op['value'])
            state['caller'].append((v, copy.deepcopy(v)))
            tbl[a, b] = v
            M[frozenset((a, b))] = copy.deepcopy(v)
        elif o == 'set_multi':
            k1, k2 = self._names(state, op['k1']), self._names(state, op['k2'])
            v = mkval(op['value'])
            state['caller'].append((v, copy.deepcopy(v)))
            tbl[k1, k2] = v
            l1 = [k1] if isinstance(k1, str) else list(k1)
            l2 = [k2] if isinstance(k2, str) else list(k2)
            pairs = set()
            for a in l1:
                for b in l2:
                    M[frozenset((a, b))] = copy.deepcopy(v)
                    pairs.add(frozenset((a, b)))
            if len(pairs) > 1:
                state['broadcast'] = True
        elif o == 'set_unset':
            v = mkval(op['value'])
            state['caller'].append((v, copy.deepcopy(v)))
            nset = sum(1 for x in M.values() if x is not None)
            if 0 < nset < len(M):
                state['partial_then_unset'] = True
            tbl.setUnset(v)
            for k in M:
                if M[k] is None:
                    M[k] = copy.deepcopy(v)
        elif o == 'apply':
            f = FUNCS[op['func']]
            snapshot = {k: copy.deepcopy(v) for k, v in M.items()}
            # in place is the documented default: written by leaving the argument out
            res = tbl.apply(f) if op['inplace'] else tbl.apply(f, inplace=False)
            applied = {k: f(copy.deepcopy(v)) for k, v in M.items()}
            if op['inplace']:
                if res is not tbl:
                    out.fail(sig + 'apply-inplace-returns-other', 'apply(inplace=True) did not return the table itself')
                for k in M:
                    M[k] = applied[k]
            else:
                if res is tbl:
                    out.fail(sig + 'apply-outofplace-returns-self', 'apply(inplace=False) returned the original table')
                elif not isinstance(res, P.PairTable):
                    out.fail(sig + 'apply-result-type', 'apply(inplace=False) returned %s' % type(res).__name__)
                else:
                    for a in T:
                        for b in T:
                            if not deq(res[a, b], applied[frozenset((a, b))]):
                                out.fail(sig + 'apply-value', 'apply(%s) result for (%s,%s) is %r expected %r' % (op['func'], a, b, res[a, b], applied[frozenset((a, b))]))
                    # mutating the new table must not reach the original
                    for a in T:
                        for b in T:
                            mutate(res[a, b])
                for k in M:     # original untouched
                    M[k] = snapshot[k]
        elif o == 'mutate_stored':
            a, b = T[op['i'] % n], T[op['j'] % n]
            obj = tbl[a, b]
            if mutate(obj):
                mutate(M[frozenset((a, b))])
                if state['broadcast']:
                    state['mut_after_broadcast'] = True
        elif o == 'mutate_caller':
            if state['caller']:
                obj, snap = state['caller'][op['which'] % len(state['caller'])]
                if mutate(obj):
                    mutate(snap)
        elif o == 'check':
            try:
                tbl.check()
                raised = False
            except ValueError:
                raised = True
            want = any(v is None for v in M.values())
            if raised != want:
                out.fail(sig + 'check', 'check() raised=%s but model has unset pairs=%s' % (raised, want))
        elif o == 'iterate':
            # documented defaults (full=False, diagonal=True) are written by leaving the argument out
            ikw = {}
            if op['full']:
                ikw['full'] = True
            if not op['diagonal']:
                ikw['diagonal'] = False
            got = [(ij, t, v) for ij, t, v in tbl.iterpairs(**ikw)]
            want = []
            for i, a in enumerate(T):
                for j, b in enumerate(T):
                    keep = True if op['full'] else (i <= j if op['diagonal'] else i < j)
                    if keep:
                        want.append(((i, j), (a, b), M[frozenset((a, b))]))
            if [(x[0], x[1]) for x in got] != [(x[0], x[1]) for x in want]:
                out.fail(sig + 'iterpairs-sequence', 'iterpairs(full=%s,diagonal=%s) visited %r expected %r' % (
                    op['full'], op['diagonal'], [x[1] for x in got], [x[1] for x in want]))
            elif not all(deq(g[2], w[2]) for g, w in zip(got, want)):
                out.fail(sig + 'iterpairs-values', 'iterpairs yielded values that differ from the last assigned ones')
            full = [(ij, t) for ij, t, v in tbl]
            if full != [((i, j), (a, b)) for i, a in enumerate(T) for j, b in enumerate(T)]:
                out.fail(sig + 'iter-sequence', '__iter__ does not visit all ordered pairs in type-list order')
        self.invariant(state, out)

    def invariant(self, state, out):
        T, tbl, M = state['types'], state['table'], state['model']
        sig = PID + '/pairtable/'
        for a in T:
            for b in T:
                got = tbl[a, b]
                want = M[frozenset((a, b))]
                if not deq(got, want):
                    out.fail(sig + 'value-differs-from-last-assigned', 'table[%s,%s]=%r but the last value assigned to that pair is %r' % (a, b, got, want))
                    M[frozenset((a, b))] = copy.deepcopy(got) if got is not None else None   # resync
        try:
            tbl.check()
            raised = False
        except ValueError:
            raised = True
        if raised != any(v is None for v in M.values()):
            out.fail(sig + 'check', 'check() raised=%s but the model %s unset pairs' % (raised, 'has' if not raised else 'has no'))
        pairs = list(M)
        for x, y in itertools.combinations(pairs, 2):
            ax, bx = (tuple(x) * 2)[:2]
            ay, by = (tuple(y) * 2)[:2]
            if aliased(tbl[ax, bx], tbl[ay, by]):
                out.fail(sig + 'pairs-share-object', 'values of pairs %s and %s are the same object / share memory' % (sorted(x), sorted(y)))
        for obj, snap in state['caller']:
            if not deq(obj, snap):
                out.fail(sig + 'caller-object-modified', 'an object the caller assigned was modified through the table')
            for k in pairs:
                a, b = (tuple(k) * 2)[:2]
                if aliased(tbl[a, b], obj):
                    out.fail(sig + 'stored-aliases-caller', 'stored value of %s aliases the caller\'s object' % sorted(k))

    def finish(self, state, trace, out):
        out.nontrivial = state['mut_after_broadcast'] or state['partial_then_unset']
        out.label('ntypes=%d' % len(state['types']))
        for f in ('mut_after_broadcast', 'partial_then_unset'):
            if state[f]:
                out.label(f)
        if any(o['op'] == 'apply' for o in trace):
            out.label('has-apply')


class PairTableEnum(Sub):
    name = 'pairtable-depth3'
    kind = 'enum'
    doc = 'exhaustive: all PairTable histories of depth <=3 over a 10-operation alphabet on types [A, poly]'
    budget = {'quick': 0, 'thorough': 0}

    def __init__(self, hist):
        self.hist = hist

    def enumerate(self, tier):
        L = {'t': 'list', 'v': [1]}
        alpha = [{'op': 'set', 'i': 0, 'j': 0, 'value': L}, {'op': 'set', 'i': 0, 'j': 1, 'value': {'t': 'arr', 'v': [1.0, 2.0]}},
                 {'op': 'set', 'i': 1, 'j': 0, 'value': {'t': 'dict', 'v': {'k': 1}}},
                 {'op': 'set', 'i': 1, 'j': 1, 'value': {'t': 'num', 'v': 2}},
                 {'op': 'set_multi', 'k1': [0, 1], 'k2': [0, 1], 'value': L},
                 {'op': 'set_multi', 'k1': 1, 'k2': [0, 1], 'value': {'t': 'nested', 'v': [2]}},
                 {'op': 'set_unset', 'value': L}, {'op': 'mutate_stored', 'i': 0, 'j': 1}, {'op': 'mutate_stored', 'i': 1, 'j': 1},
                 {'op': 'apply', 'func': 'wrap', 'inplace': False}]
        depth = 3 if tier == 'quick' else 4
        tail = [{'op': 'check'}, {'op': 'iterate', 'full': False, 'diagonal': True}, {'op': 'mutate_caller', 'which': 0}]
        for n in range(1, depth + 1):
            for seq in itertools.product(alpha, repeat=n):
                yield {'params': {'types': ['A', 'poly']}, 'trace': [dict(o) for o in seq] + tail}

    def check(self, spec):
        out = self.hist.check(spec)
        return out


class ValueTableHistory(History):
    name = 'valuetable'
    doc = 'stateful machine on one ValueTable vs dict model (set single/list, setUnset, check, iterate)'
    budget = {'quick': 200, 'thorough': 32000}
    steps = {'quick': 20, 'thorough': 30}

    def params_strategy(self, tier):
        return st.lists(st.sampled_from(NAMES), min_size=1, max_size=4, unique=True).map(lambda t: {'types': t})

    def ops(self, tier):
        idx = st.integers(0, 3)
        keys = st.one_of(idx, st.lists(idx, min_size=1, max_size=4), st.lists(idx, min_size=1, max_size=3).map(lambda l: {'tuple': l}))
        return {'set': {'key': keys, 'value': value_strategy()}, 'set_unset': {'value': value_strategy()},
                'check': {}, 'iterate': {}}

    def init(self, params, out):
        P = target()
        types = list(params['types'])
        state = {'types': types, 'table': P.ValueTable(types, 'vt'), 'model': {t: None for t in types}, 'partial_then_unset': False, 'nset': 0}
        self.invariant(state, out)
        return state

    def apply(self, state, op, out):
        T, tbl, M = state['types'], state['table'], state['model']
        n = len(T)
        sig = PID + '/valuetable/'
        o = op['op']
        if o == 'set':
            k = op['key']
            v = mkval(op['value'])
            if isinstance(k, dict):
                key = tuple(T[i % n] for i in k['tuple'])
                names = list(key)
            elif isinstance(k, list):
                key = [T[i % n] for i in k]
                names = key
            else:
                key = T[k % n]
                names = [key]
            tbl[key] = v
            for t in names:
                M[t] = copy.deepcopy(v)
            state['nset'] += 1
        elif o == 'set_unset':
            v = mkval(op['value'])
            ns = sum(1 for x in M.values() if x is not None)
            if 0 < ns < len(M):
                state['partial_then_unset'] = True
            tbl.setUnset(v)
            for t in M:
                if M[t] is None:
                    M[t] = copy.deepcopy(v)
        elif o == 'check':
            try:
                tbl.check()
                raised = False
            except ValueError:
                raised = True
            want = any(v is None for v in M.values())
            if raised != want:
                out.fail(sig + 'check', 'check() raised=%s but model has unset types=%s' % (raised, want))
        elif o == 'iterate':
            got = list(tbl)
            want = [(i, t, M[t]) for i, t in enumerate(T)]
            if [(g[0], g[1]) for g in got] != [(w[0], w[1]) for w in want] or not all(deq(g[2], w[2]) for g, w in zip(got, want)):
                out.fail(sig + 'iteration', 'iteration yielded %r expected %r' % (got, want))
        self.invariant(state, out)

    def invariant(self, state, out):
        for t in state['types']:
            if not deq(state['table'][t], state['model'][t]):
                out.fail(PID + '/valuetable/value-differs-from-last-assigned', 'table[%s]=%r, last assigned %r' % (t, state['table'][t], state['model'][t]))
                state['model'][t] = copy.deepcopy(state['table'][t])
        try:
            state['table'].check()
            raised = False
        except ValueError:
            raised = True
        if raised != any(v is None for v in state['model'].values()):
            out.fail(PID + '/valuetable/check', 'check() raised=%s, inconsistent with the model' % raised)

    def finish(self, state, trace, out):
        out.nontrivial = state['partial_then_unset'] or state['nset'] >= 2
        out.label('ntypes=%d' % len(state['types']))
        if state['partial_then_unset']:
            out.label('partial_then_unset')


_p = PairTableHistory()
SUBS = [_p, PairTableEnum(_p), ValueTableHistory()]
