"""C17 -- UnitConverter conversions agree with SI constants and dimensional analysis."""
import math

import numpy as np
from hypothesis import strategies as st

from . import specs
from .core import Sub, Outcome, target

PID = 'C17'
SHARDS = {'quick': 4, 'thorough': 16}
RULE = ('Generated converters (dc log-uniform 1e-3..1e3 x length unit spelling, ec log-uniform x molar / non-molar energy unit, '
        'mc x mass unit) and arguments (python float / int, numpy scalar, 1-D and 2-D arrays, values log-uniform of either sign '
        'incl. 0 and 1). Every documented method is called; the magnitude is compared with the textbook formula evaluated with an '
        'own SI table (exact 2019 k_B, N_A, e; unit factors), the unit of the returned pint Quantity with the documented unit, '
        'f(a*x) with a*f(x) (affine for Celsius), array results with scalar calls elementwise; in half of the cases a second converter with other '
        'characteristic values is constructed before the first one is used and both must stay correct. Non-trivial = dc != 1 and the '
        'argument is not 0 or 1; distinct = spec hash.')
ASSUMPTIONS = ['SI factors of the unit spellings are taken from the 2019 SI / thermochemical calorie (4.184 J), not from pint',
               'magnitudes are compared to 1e-12 relative (a conversion is a product of <10 exactly-known factors)',
               'valid numeric input = python/numpy real scalars and float ndarrays (what the docstrings name); lists and strings are not generated']

KB = 1.380649e-23
NA = 6.02214076e23
EV = 1.602176634e-19
REL = 1e-12

LENGTH_UNITS = {'nanometer': 1e-9, 'nm': 1e-9, 'angstrom': 1e-10, 'picometer': 1e-12, 'micrometer': 1e-6, 'meter': 1.0}
# unit -> (joule per unit, molar?)
ENERGY_UNITS = {'kilojoule/mole': (1e3, True), 'kJ/mol': (1e3, True), 'joule/mole': (1.0, True), 'kcal/mol': (4184.0, True),
                'joule': (1.0, False), 'eV': (EV, False), 'kilojoule': (1e3, False),
                # molar / per-particle nature not visible in the spelling: only dimensional analysis can tell
                'R*kelvin': (KB * NA, True), 'eV*N_A': (EV * NA, True), 'kJ/mol/N_A': (1e3 / NA, False)}
MASS_UNITS = ['gram/mole', 'kilogram/mole', 'gram', 'dalton']


def spec_strategy():
    val = st.one_of(specs.logfloat(-3, 3, 8), specs.logfloat(-3, 3, 8).map(lambda v: -v), st.sampled_from([0.0, 1.0, 2.0, 0.5]))
    a1 = st.lists(val, min_size=1, max_size=6).map(lambda v: {'kind': 'array1', 'v': v})
    a2 = st.tuples(st.integers(1, 3), st.integers(1, 3), st.lists(val, min_size=9, max_size=9)).map(
        lambda t: {'kind': 'array2', 'shape': [t[0], t[1]], 'v': t[2][:t[0] * t[1]]})
    arg = st.one_of(
        a1, a2, a1,
        val.map(lambda v: {'kind': 'float', 'v': v}),
        st.integers(-5, 40).map(lambda v: {'kind': 'int', 'v': v}),
        # integer-typed arrays (np.arange(1, 5)): numeric input like any other
        st.lists(st.integers(-5, 40), min_size=1, max_size=6).map(lambda v: {'kind': 'iarray', 'v': v}),
        val.map(lambda v: {'kind': 'np', 'v': v}))
    return st.fixed_dictionaries({
        # characteristic values with few digits and with all 17 significant digits of a double (a value that went through a
        # '%g'-style format on its way into the unit registry is only exact for the former)
        'dc': st.one_of(specs.logfloat(-3, 3, 6), specs.logfloat(-3, 3, 17), st.sampled_from([1.0, 1.5, 0.25])),
        'dc_unit': st.sampled_from(sorted(LENGTH_UNITS)),
        'ec': st.one_of(specs.logfloat(-3, 3, 6), specs.logfloat(-3, 3, 17), st.sampled_from([2.48, 1.0])),
        'ec_unit': st.sampled_from(sorted(ENERGY_UNITS)),
        'mc': specs.logfloat(-2, 3, 5), 'mc_unit': st.sampled_from(MASS_UNITS),
        'arg': arg, 'diameter': st.one_of(specs.logfloat(-2, 2, 6), specs.logfloat(-2, 2, 6), st.sampled_from([1.0, 2, 0.0, 0])),
        'scale': st.one_of(specs.logfloat(-2, 2, 5), st.sampled_from([-1.0, 3.0])),
        'other': st.one_of(st.none(), st.fixed_dictionaries({'dc': specs.logfloat(-3, 3, 6), 'dc_unit': st.sampled_from(sorted(LENGTH_UNITS)),
                                                           'ec': specs.logfloat(-3, 3, 6), 'ec_unit': st.sampled_from(sorted(ENERGY_UNITS))})),
        # constructor arguments left out: the documented defaults (1.0 nanometer, 14.02 gram/mole, 2.48 kilojoule/mole) apply
        'omit': st.sampled_from([[], [], [], ['dc'], ['ec'], ['mc'], ['dc', 'mc', 'ec']])}).map(apply_defaults)


DEFAULTS = {'dc': (1.0, 'nanometer'), 'mc': (14.02, 'gram/mole'), 'ec': (2.48, 'kilojoule/mole')}


def apply_defaults(spec):
    spec = dict(spec)
    for name in spec.get('omit', []):
        spec[name], spec[name + '_unit'] = DEFAULTS[name]
    return spec


def converter_kwargs(spec):
    kw = {}
    for name in ('dc', 'mc', 'ec'):
        if name not in spec.get('omit', []):
            kw[name], kw[name + '_unit'] = spec[name], spec[name + '_unit']
    return kw


def build_arg(a):
    if a['kind'] == 'float':
        return float(a['v'])
    if a['kind'] == 'int':
        return int(a['v'])
    if a['kind'] == 'np':
        return np.float64(a['v'])
    if a['kind'] == 'iarray':
        return np.asarray(a['v'], dtype=np.int64)
    if a['kind'] == 'array1':
        return np.asarray(a['v'], dtype=float)
    return np.asarray(a['v'], dtype=float).reshape(a['shape'])


def expected(spec):
    """method -> (function of the raw argument array, documented unit string)"""
    dc_m = spec['dc'] * LENGTH_UNITS[spec['dc_unit']]
    je, molar = ENERGY_UNITS[spec['ec_unit']]
    e_j = spec['ec'] * je / (NA if molar else 1.0)      # joule per particle
    d = float(spec['diameter'])
    return {
        'toKelvin': (lambda x: x * (e_j / KB), 'kelvin'),
        'toCelcius': (lambda x: x * (e_j / KB) - 273.15, 'degree_Celsius'),
        'toInvAngstrom': (lambda x: x / (dc_m / 1e-10), '1/angstrom'),
        'toInvNanometer': (lambda x: x / (dc_m / 1e-9), '1/nanometer'),
        'toConcentration': (lambda x: x / ((dc_m / 0.1) ** 3 * NA), 'mole/liter'),
        'toVolumeFraction': (lambda x: x * math.pi * d ** 3 / 6.0, 'dimensionless'),
    }


def _close(a, b, scale):
    a = np.asarray(a, dtype=float)
    b = np.asarray(b, dtype=float)
    return bool(np.all(np.abs(a - b) <= REL * np.maximum(np.maximum(np.abs(b), scale), 1e-300)))


class Convert(Sub):
    name = 'convert'
    doc = 'every documented to* method of a generated converter vs SI-table formula, unit, linearity, elementwise arrays'
    budget = {'quick': 160, 'thorough': 4800}

    def strategy(self, tier):
        return spec_strategy()

    def check(self, spec):
        P = target()
        import pint
        out = Outcome()
        sig = PID + '/'
        uc = P.util.UnitConverter(**converter_kwargs(spec))
        if spec.get('omit'):
            out.label('defaults-for-' + '+'.join(spec['omit']))
        if spec.get('other') is not None:
            # a second converter with other characteristic values is alive while the first one is used: converters are independent
            o = spec['other']
            other = P.util.UnitConverter(dc=o['dc'], dc_unit=o['dc_unit'], mc=spec['mc'], mc_unit=spec['mc_unit'], ec=o['ec'], ec_unit=o['ec_unit'])
            out.label('second-converter-alive')
        x = build_arg(spec['arg'])
        xa = np.asarray(x, dtype=float)
        a = float(spec['scale'])
        d = spec['diameter']
        exp = expected(spec)
        out.label('arg=' + spec['arg']['kind'], 'ec=' + ('molar' if ENERGY_UNITS[spec['ec_unit']][1] else 'per-particle'))
        out.nontrivial = spec['dc'] != 1.0 and bool(np.any((xa != 0.0) & (xa != 1.0)))
        x_before = np.array(xa, copy=True)
        for meth, (f, unit) in exp.items():
            call = (lambda v, m=meth: getattr(uc, m)(v, d)) if meth == 'toVolumeFraction' else (lambda v, m=meth: getattr(uc, m)(v))
            try:
                q = call(x)
                if not np.array_equal(np.asarray(x, dtype=float), x_before):
                    out.fail(sig + meth + '/modifies-argument', '%s changed the array it was given' % meth)
                    x = build_arg(spec['arg'])
                elif hasattr(q, 'magnitude') and isinstance(x, np.ndarray) and isinstance(q.magnitude, np.ndarray) and np.shares_memory(q.magnitude, x):
                    out.fail(sig + meth + '/result-aliases-argument', '%s returned a quantity that shares memory with its argument' % meth)
            except Exception as exc:   # noqa -- "none raises for valid numeric input"
                out.fail(sig + meth + '/raises', '%s(%r) raised %s: %s' % (meth, spec['arg'], type(exc).__name__, exc))
                continue
            if not isinstance(q, pint.Quantity) and not hasattr(q, 'magnitude'):
                out.fail(sig + meth + '/not-a-quantity', '%s returned %r, not a pint Quantity' % (meth, type(q)))
                continue
            try:
                want_unit = uc.pint.Unit(unit)
                same_unit = (q.units == want_unit)
            except Exception:
                same_unit = False
            if not same_unit:
                out.fail(sig + meth + '/unit', '%s returned units %r, documented %s' % (meth, str(q.units), unit))
                continue
            mag = np.asarray(q.magnitude, dtype=float)
            want = f(xa)
            # Celsius subtracts 273.15: the absolute scale of the comparison is the Kelvin value
            scale = np.abs(want) + (273.15 if meth == 'toCelcius' else 0.0)
            if mag.shape != xa.shape:
                out.fail(sig + meth + '/shape', '%s returned magnitude of shape %s for argument of shape %s' % (meth, mag.shape, xa.shape))
                continue
            if not _close(mag, want, scale):
                out.fail(sig + meth + '/magnitude', '%s(%s) = %r, SI formula gives %r' % (meth, xa.ravel()[:3], mag.ravel()[:3], np.asarray(want).ravel()[:3]),
                         dc=spec['dc'], dc_unit=spec['dc_unit'], ec=spec['ec'], ec_unit=spec['ec_unit'])
                continue
            # linear (affine for Celsius) in the argument
            try:
                q2 = call(x * a)
                m2 = np.asarray(q2.magnitude, dtype=float)
                off = -273.15 if meth == 'toCelcius' else 0.0
                lin = a * (mag - off) + off
                sc = np.abs(a * (mag - off)) + abs(off)
                if m2.shape != mag.shape or not _close(m2, lin, sc):
                    out.fail(sig + meth + '/linearity', '%s(a*x) != a*%s(x) (a=%r): %r vs %r' % (meth, meth, a, m2.ravel()[:3], lin.ravel()[:3]))
            except Exception as exc:   # noqa
                out.fail(sig + meth + '/raises', '%s(%r*%r) raised %s: %s' % (meth, a, spec['arg'], type(exc).__name__, exc))
            # arrays are converted elementwise, identically to scalar calls
            if xa.ndim >= 1:
                flat = xa.ravel()
                for i in sorted({0, len(flat) - 1, len(flat) // 2}):
                    try:
                        qi = call(float(flat[i]))
                        mi = float(np.asarray(qi.magnitude, dtype=float))
                    except Exception as exc:   # noqa
                        out.fail(sig + meth + '/raises', '%s(%r) raised %s' % (meth, float(flat[i]), type(exc).__name__))
                        break
                    got = float(mag.ravel()[i])
                    if abs(mi - got) > 8 * np.finfo(float).eps * max(abs(mi), 273.15 if meth == 'toCelcius' else 0.0):
                        out.fail(sig + meth + '/elementwise', '%s on an array gives %r at index %d, the scalar call %r' % (meth, got, i, mi))
                        break
        if spec.get('other') is not None:
            o = dict(spec, **spec['other'])
            for meth, (f, unit) in expected(o).items():
                try:
                    q = getattr(other, meth)(x, d) if meth == 'toVolumeFraction' else getattr(other, meth)(x)
                    mag = np.asarray(q.magnitude, dtype=float)
                except Exception as exc:   # noqa
                    out.fail(sig + meth + '/raises', 'second converter: %s raised %s' % (meth, type(exc).__name__))
                    continue
                want = f(xa)
                if mag.shape != xa.shape or not _close(mag, want, np.abs(want) + (273.15 if meth == 'toCelcius' else 0.0)):
                    out.fail(sig + meth + '/magnitude', 'second converter (built after the first, used after it): %s gives %r, SI formula %r' % (
                        meth, mag.ravel()[:3], np.asarray(want).ravel()[:3]))
        # the characteristic quantities themselves
        try:
            dm = uc.d.to('meter').magnitude
            if abs(dm - spec['dc'] * LENGTH_UNITS[spec['dc_unit']]) > REL * dm:
                out.fail(sig + 'dc/magnitude', 'uc.d = %r m, expected %r m' % (dm, spec['dc'] * LENGTH_UNITS[spec['dc_unit']]))
        except Exception as exc:   # noqa
            out.fail(sig + 'dc/raises', 'uc.d.to(meter) raised %s' % type(exc).__name__)
        return out


SUBS = [Convert()]
