"""C04 -- results are invariant under physically meaningless reformulations of the input."""
import copy

import numpy as np
from hypothesis import strategies as st

from . import build, specs
from . import systems as S
from .core import Sub, Outcome, target

PID = 'C04'
SHARDS = {'quick': 8, 'thorough': 16}
RULE = ('Base systems from the C01 generator (1-3 types, all closures / potentials / omega models incl. diblock tables) x a transformation T: '
        '(a) permutation of the type list, keeping the names (declared order no longer sorted) or renaming (new names not alphabetical), (b) split of a single-site species into two labelled species at ratio f in '
        '(0.05,0.95) with NoIntra cross term, or of an even FJC N-mer (explicit pair-sum table) into the two halves of the symmetric '
        'diblock with exact block tables, (c) scaling kT and every energy parameter incl. high_value by s in [0.05,20]. The relations '
        'are decided where they hold identically: (cost) cost_T(T x) = T cost(x) for generated symmetric smooth x of amplitude 1e-3..2 '
        '(tolerance 1e-11 cond(I-Omega C) scale), and equivariance of pair_correlation, structure_factor (both normalisations; sum rule '
        'for split species), second_virial (both flags) and pmf (x s) on the two objects; (root) T(root) of the base system is a root of '
        'the transformed system, a solve started there succeeds and stays within 1e-6, and the calculate functions agree on the two '
        'solved objects. Non-trivial = T changes order or rank (or s != 1) and max|h| > 1e-2; distinct = spec hash.')
ASSUMPTIONS = ['two independent solves are never compared: the discretised equations can have several roots (observed), so root-level '
               'statements start the second solve from T(root)',
               'x is symmetric in the pair indices (cost() reads gamma of the (i<=j) entry only)',
               'cases with cond(I-Omega C) > 1e6 at some k, or cond x max|Omega C| > 1e7, are counted and skipped (rounding amplification); the tolerance is '
               '1e-11 x that amplification']
EPS = np.finfo(float).eps
NEW_NAMES = ['Q', 'P', 'S', 'R']


# ----------------------------------------------------------------------------- transformations (pure functions on specs)

def remap(spec, idx_map, names):
    """new spec whose type q is old type idx_map[q]"""
    n2 = len(idx_map)
    out = {k: copy.deepcopy(v) for k, v in spec.items() if k not in ('omega', 'potential', 'closure', 'types', 'dia', 'eta')}
    out['types'] = names[:n2]
    out['dia'] = [spec['dia'][i] for i in idx_map]
    out['eta'] = [spec['eta'][i] for i in idx_map]
    for tab in ('omega', 'potential', 'closure'):
        out[tab] = {}
        for (q1, q2) in S.pair_indices(n2):
            out[tab][S.key(q1, q2)] = copy.deepcopy(spec[tab][S.key(idx_map[q1], idx_map[q2])])
    return out


def permute(spec, perm, rename=True):
    """re-order the type list; rename=False keeps each species' own name (so the declared list is no longer in sorted order),
    rename=True gives new names (deliberately not in alphabetical order either)"""
    if rename:
        return remap(spec, list(perm), NEW_NAMES), list(perm)
    return remap(spec, list(perm), [spec['types'][i] for i in perm]), list(perm)


def split_monatomic(spec, a, f):
    n = len(spec['types'])
    idx = list(range(n)) + [a]
    new = remap(spec, idx, list(spec['types']) + ['Z'])
    new['eta'][a] = spec['eta'][a] * f
    new['eta'][n] = spec['eta'][a] * (1.0 - f)
    new['omega'][S.key(a, n)] = ['NoIntra', {}]
    return new, idx


def split_diblock(spec, a):
    n = len(spec['types'])
    idx = list(range(n)) + [a]
    new = remap(spec, idx, list(spec['types']) + ['Z'])
    p = spec['omega'][S.key(a, a)][1]
    new['eta'][a] = spec['eta'][a] * 0.5
    new['eta'][n] = spec['eta'][a] * 0.5
    new['omega'][S.key(a, a)] = ['Diblock', dict(p, part='AA')]
    new['omega'][S.key(n, n)] = ['Diblock', dict(p, part='BB')]
    new['omega'][S.key(a, n)] = ['Diblock', dict(p, part='AB')]
    return new, idx


def scale_energy(spec, s):
    new = copy.deepcopy(spec)
    new['kT'] = spec['kT'] * s
    for kk, desc in new['potential'].items():
        p = desc[1]
        if 'epsilon' in p:
            p['epsilon'] = p['epsilon'] * s
        if desc[0] in ('HardSphere', 'Exponential', 'HardCoreLennardJones'):
            p['high_value'] = p.get('high_value', 1e6) * s
    return new, list(range(len(spec['types'])))


def case_strategy(tier):
    # up to four site types (a split of a three-type system also has four)
    base = S.system_spec(big=False, allow_ms=True, max_types=4)
    return st.tuples(base, st.sampled_from(['perm', 'split', 'diblock', 'diblock', 'scale', 'perm', 'split', 'diblock']), st.integers(0, 10 ** 6), specs.fl(0.05, 0.95, 3),
                     # "all positive scale factors": mostly 0.05 .. 20, sometimes a change of energy unit by many orders of magnitude
                     st.one_of(specs.logfloat(-1.3, 1.3, 4), specs.logfloat(-1.3, 1.3, 4), st.sampled_from([1e-4, 1e-2, 50.0, 300.0, 1e3, 1e4])),
                     specs.array_desc(6, (-2, 0)), specs.logfloat(-3, 0.3, 3)).map(
        lambda t: {'base': t[0], 'T': t[1], 'pick': t[2], 'f': t[3], 's': t[4], 'x': t[5], 'amp': t[6]})


def transform(case):
    """returns (base spec, transformed spec, idx_map new->old, pmf factor, label) -- the base may be adjusted so that T applies"""
    base = copy.deepcopy(case['base'])
    n = len(base['types'])
    kind = case['T']
    if kind == 'perm':
        if n == 1:
            kind = 'split'
        else:
            import itertools
            perms = [p for p in itertools.permutations(range(n)) if list(p) != list(range(n))]
            rename = (case['pick'] // len(perms)) % 2 == 0
            new, idx = permute(base, perms[case['pick'] % len(perms)], rename)
            return base, new, idx, 1.0, 'perm-renamed' if rename else 'perm-reordered'
    if kind in ('diblock', 'split'):
        # a species can only be split if it is a molecule of its own: drop block-copolymer wiring from the base
        for (i, j) in S.pair_indices(n):
            if base['omega'][S.key(i, j)][0] == 'Diblock':
                base['omega'][S.key(i, j)] = ['SingleSite', {}] if i == j else ['NoIntra', {}]
    if kind == 'diblock':
        a = case['pick'] % n
        N = 2 * (1 + case['pick'] % 10)
        l = base['dia'][a]
        base['omega'][S.key(a, a)] = ['Diblock', {'NA': N // 2, 'NB': N // 2, 'l': l, 'part': 'full'}]
        # HNC is only generated between single-site species
        for (i, j) in S.pair_indices(n):
            if a in (i, j) and base['closure'][S.key(i, j)][0] == 'HNC':
                base['closure'][S.key(i, j)][0] = 'PY'
        if n < 4:
            new, idx = split_diblock(base, a)
            return base, new, idx, 1.0, 'split-diblock'
        kind = 'scale'
    if kind == 'split':
        singles = [i for i in range(n) if base['omega'][S.key(i, i)][0] == 'SingleSite']
        if singles and n < 4:
            a = singles[case['pick'] % len(singles)]
            new, idx = split_monatomic(base, a, case['f'])
            return base, new, idx, 1.0, 'split-monatomic'
        kind = 'scale'
    new, idx = scale_energy(base, case['s'])
    return base, new, idx, case['s'], 'scale'


def embed(x, idx, L):
    """x (L,n,n) of the base system -> (L,n2,n2) of the transformed system"""
    ii = np.asarray(idx)
    return x[:, ii][:, :, ii]


def compare_calculate(pr0, pr1, idx, factor, out, sig, tol_rel, kind):
    """equivariance of the calculate functions on two objects whose arrays are related by T"""
    P = target()
    C = P.calculate
    t0, t1 = pr0.sys.types, pr1.sys.types
    n1 = len(t1)
    # pairs of trace species: relative rounding grows with (largest pair density) / (pair density of the pair), see the cost check
    pd = np.asarray(pr1.sys.density.pair.data[0], dtype=float)
    damp = np.minimum(float(np.max(pd)) / np.maximum(pd, 1e-300), 1e12)

    def cmp(name, f0, f1, rel=tol_rel, mask=None, fac=1.0):
        for q1 in range(n1):
            for q2 in range(n1):
                a = np.asarray(f1[t1[q1], t1[q2]], dtype=float)
                b = np.asarray(f0[t0[idx[q1]], t0[idx[q2]]], dtype=float) * fac
                m = np.ones(a.shape, dtype=bool) if mask is None else mask[q1][q2]
                scale = float(np.max(np.abs(b[m]))) + 1.0 if np.any(m) else 1.0
                with np.errstate(all='ignore'):
                    bad = m & ~(np.abs(a - b) <= rel * scale * damp[q1, q2])
                if np.any(bad):
                    out.fail(sig + name, '%s of the transformed system differs from T(%s of the base system) for pair (%s,%s): %r vs %r [T=%s]' % (
                        name, name, t1[q1], t1[q2], float(np.ravel(a[bad])[0]), float(np.ravel(b[bad])[0]), kind))
                    return False
        return True
    g0 = S.quiet(C.pair_correlation, copy.deepcopy(pr0))
    g1 = S.quiet(C.pair_correlation, copy.deepcopy(pr1))
    if not cmp('pair_correlation', g0, g1):
        return
    mask = [[np.asarray(g0[t0[idx[q1]], t0[idx[q2]]]) > 1e-3 for q2 in range(n1)] for q1 in range(n1)]
    w0 = S.quiet(C.pmf, copy.deepcopy(pr0))
    w1 = S.quiet(C.pmf, copy.deepcopy(pr1))
    if not cmp('pmf', w0, w1, rel=tol_rel * 1e3, mask=mask, fac=factor):
        return
    for ex in (True, False):
        b0 = S.quiet(C.second_virial, copy.deepcopy(pr0), extrapolate=ex)
        b1 = S.quiet(C.second_virial, copy.deepcopy(pr1), extrapolate=ex)
        if not cmp('second_virial', b0, b1, rel=tol_rel * 10):
            return
    s0 = S.quiet(C.structure_factor, copy.deepcopy(pr0), normalize=False)
    s1 = S.quiet(C.structure_factor, copy.deepcopy(pr1), normalize=False)
    n0 = len(t0)
    tot = np.zeros_like(s0.data)
    for q1 in range(n1):
        for q2 in range(n1):
            tot[:, idx[q1], idx[q2]] += s1.data[:, q1, q2]
    sc = float(np.max(np.abs(s0.data))) + 1e-300
    if np.max(np.abs(tot - s0.data)) > tol_rel * 10 * sc:
        out.fail(sig + 'structure_factor', 'unnormalised S(k): sum over the images of each pair differs from the base system by %.3g (scale %.3g) [T=%s]' % (
            float(np.max(np.abs(tot - s0.data))), sc, kind))
        return
    if n1 == n0:
        sn0 = S.quiet(C.structure_factor, copy.deepcopy(pr0), normalize=True)
        sn1 = S.quiet(C.structure_factor, copy.deepcopy(pr1), normalize=True)
        cmp('structure_factor-normalized', sn0, sn1, rel=tol_rel * 10)


class CostLevel(Sub):
    name = 'cost'
    doc = 'equivariance of PRISM.cost and of the calculate functions under permutation / species split / energy scaling for arbitrary x'
    budget = {'quick': 320, 'thorough': 48000}

    def strategy(self, tier):
        return case_strategy(tier)

    def check(self, case):
        out = Outcome()
        sig = PID + '/cost/'
        base, new, idx, factor, kind = transform(case)
        n0, n1 = len(base['types']), len(new['types'])
        L = base['domain']['length']
        pr0 = S.quiet(S.build_system(base).createPRISM)
        pr1 = S.quiet(S.build_system(new).createPRISM)
        raw = build.array(case['x'], n0 * n0 * L).reshape((L, n0, n0))
        raw = 0.5 * (raw + np.transpose(raw, (0, 2, 1)))
        m = float(np.max(np.abs(raw))) or 1.0
        x0 = raw / m * case['amp']
        x1 = embed(x0, idx, L)
        y0 = np.array(S.quiet(pr0.cost, x0.reshape(-1).copy())).reshape((L, n0, n0))
        y1 = np.array(S.quiet(pr1.cost, np.ascontiguousarray(x1).reshape(-1).copy())).reshape((L, n1, n1))
        out.label('T=' + kind, 'rank=%d' % n0)
        if not (np.all(np.isfinite(y0)) and np.all(np.isfinite(y1))):
            out.skipped = 'cost-not-finite'
            return out
        with np.errstate(all='ignore'):
            cond = max(float(np.max(np.linalg.cond(pr0.IOC.data))), float(np.max(np.linalg.cond(pr1.IOC.data))))
        # rounding amplification of H = (I - Omega C)^-1 Omega C Omega: condition number times the size of Omega C (a shell
        # where c = -high_value/kT, e.g. MSA+flag on a hard potential whose explicit sigma exceeds the contact distance, makes
        # Omega C ~ 1e5 and H ~ -Omega by cancellation)
        with np.errstate(all='ignore'):
            oc = max(float(np.max(np.abs(pr0.OC.data))), float(np.max(np.abs(pr1.OC.data))), 1.0)
        amp = cond * oc
        if not np.isfinite(amp) or cond > 1e6 or amp > 1e7:
            out.skipped = 'ill-conditioned'
            return out
        scale = float(np.max(np.abs(y0))) + float(np.max(np.abs(x0))) + 1e-6
        # h_ab = H_ab / (rho_a rho_b): the rounding of H is relative to its largest entry, so a pair of trace species (pair density
        # far below the largest one) carries a relative error larger by the ratio of the pair densities
        pd = np.asarray(pr1.sys.density.pair.data[0], dtype=float)
        damp = np.minimum(float(np.max(pd)) / np.maximum(pd, 1e-300), 1e12)
        tol = 1e-11 * amp * scale * damp[None, :, :]
        want = embed(y0, idx, L)
        dev = float(np.max(np.abs(y1 - want) / tol))
        out.info = {'cond': cond, 'dev_over_tol': dev}
        if dev > 1.0:
            tol = float(np.min(tol))
            dev = float(np.max(np.abs(y1 - want)))
            q = np.unravel_index(int(np.argmax(np.abs(y1 - want))), y1.shape)
            out.fail(sig + 'cost-not-equivariant', 'cost_T(T x) differs from T cost(x) by %.3g (tolerance %.3g) at r-index %d pair (%s,%s) [T=%s]' % (
                dev, tol, q[0], new['types'][q[1]], new['types'][q[2]], kind), idx_map=idx)
            return out
        hmax = float(np.max(np.abs(pr0.totalCorr.data)))
        out.nontrivial = hmax > 1e-2 and (kind != 'scale' or case['s'] != 1.0)
        compare_calculate(pr0, pr1, idx, factor, out, sig, max(1e-9, 1e-11 * amp), kind)
        return out


class RootLevel(Sub):
    name = 'root'
    doc = 'T(root) of the base system is a root of the transformed system; a solve started there succeeds, stays, and calculate.* agree'
    budget = {'quick': 48, 'thorough': 4800}
    shrink = {'quick': False, 'thorough': True}

    def strategy(self, tier):
        return case_strategy(tier)

    def check(self, case):
        out = Outcome()
        sig = PID + '/root/'
        base, new, idx, factor, kind = transform(case)
        n0, n1 = len(base['types']), len(new['types'])
        L = base['domain']['length']
        out.label('T=' + kind, 'rank=%d' % n0)
        last = None
        for scale, pr, res in S.solve_ladder(base, fatol=1e-10, maxiter=100):
            if res is None or not res.success:
                last = None
                break
            last = (scale, pr, res)
        if last is None or last[0] != 1.0:
            out.skipped = 'base-not-converged'
            return out
        _, pr0, res0 = last
        x0 = np.array(res0.x).reshape((L, n0, n0))
        x0 = 0.5 * (x0 + np.transpose(x0, (0, 2, 1)))
        r0 = float(np.max(np.abs(S.quiet(pr0.cost, x0.reshape(-1).copy()))))
        pr1 = S.quiet(S.build_system(new).createPRISM)
        x1 = np.ascontiguousarray(embed(x0, idx, L)).reshape(-1)
        r1 = float(np.max(np.abs(S.quiet(pr1.cost, x1.copy()))))
        xs = float(np.max(np.abs(x0))) + 1e-6
        if r1 > 10 * r0 + 1e-9 * xs:
            out.fail(sig + 'image-of-root-is-not-a-root', 'residual of the transformed system at T(root) is %.3g, base residual %.3g [T=%s]' % (r1, r0, kind))
            return out
        try:
            res1 = S.quiet(pr1.solve, guess=x1.copy(), method='krylov', options=S.solver_options('krylov', 1e-10, 100))
        except Exception as exc:   # noqa
            if isinstance(exc, (ArithmeticError, ValueError)):
                out.skipped = 'second-solve-blew-up'
                return out
            raise
        if not res1.success:
            out.fail(sig + 'solve-from-image-fails', 'solve of the transformed system started from T(root) reports failure [T=%s]' % kind)
            return out
        drift = float(np.max(np.abs(np.asarray(res1.x) - x1)))
        if drift > 1e-6 * xs:
            out.fail(sig + 'solve-from-image-drifts', 'solve started from T(root) moved by %.3g (scale %.3g) [T=%s]' % (drift, xs, kind))
            return out
        # bring both objects to the same state: a solve with the own root as guess
        res0b = S.quiet(pr0.solve, guess=x0.reshape(-1).copy(), method='krylov', options=S.solver_options('krylov', 1e-10, 100))
        if not res0b.success:
            out.skipped = 'base-resolve-failed'
            return out
        out.nontrivial = float(np.max(np.abs(pr0.totalCorr.data))) > 1e-2
        compare_calculate(pr0, pr1, idx, factor, out, sig, 1e-6, kind)
        return out


SUBS = [CostLevel(), RootLevel()]
