"""C01 -- converged solutions satisfy the PRISM equation and every pair's closure."""
import numpy as np
from hypothesis import strategies as st

from . import oracles as O
from . import specs
from . import systems as S
from .core import Sub, Outcome, target

PID = 'C01'
SHARDS = {'quick': 8, 'thorough': 16}
RULE = ('Generated systems (1-3 types; packing fraction log-uniform 1e-3..0.4 split over types; diameters on the grid; kT 0.5..5; per '
        'self pair omega in {SingleSite, Gaussian, FJC, GaussianRing, DiscreteKoyama}, cross NoIntra/InterMolecular; per pair potential in '
        '{HS, Exponential, HCLJ, LJ cut/shift, WCA} with |eps| <= 0.6 kT; per pair closure in {PY, HNC (single-site pairs), MSA, MS} '
        '+- hard-core flag; length 256..2048 incl. non powers of two, dr in {0.05..0.25}; method krylov / anderson / broyden2 / df-sane, '
        'hybr / lm on 128-point grids; zero, perturbed and continuation guesses) solved on a density ladder rho/64..rho (a fresh System per rung, or one System '
        'whose densities are edited from rung to rung). Every rung '
        'that reports success is judged: (1) H = Omega C (Omega+H) at every k with Omega, rho rebuilt from the spec by explicit pair '
        'sums and an own DST; (2) c = F(gamma_in,u) to rounding and |c - F(h-c,u)| <= sup|F\'| |y|/r with y the reported residual, F and '
        'u from the oracle library; (3) reported residual = r (gamma_out - gamma_in) of the stored arrays. Non-trivial = converged and '
        '(u != 0 outside the core or rho_pair |h| > 1e-3 somewhere); distinct = spec hash.')
ASSUMPTIONS = ['only rungs with minimize_result.success are judged; non-convergence is "not explored", never a violation',
               'Martynov-Sarkisov pairs: the closure formula is a fresh instance of the shipped class (its formula is C09\'s known finding); '
               'DiscreteKoyama omega: the value is a fresh instance of the shipped class (C11 judges it)',
               'grid points in the open band (sigma, sigma+1e-6) are not judged (contact rule is C10\'s)',
               'PRISM-equation tolerance = 64 eps cond(I-Omega C) scale + propagation of the rounding inherent in the documented closed-form omega']
EPS = np.finfo(float).eps


def fill_unknown_omegas(spec, ref):
    """pairs whose omega has no independent formula: evaluate a fresh object of the shipped class"""
    for (i, j) in ref['omega_unknown']:
        w = np.asarray(S.quiet(S.make_omega(spec['omega'][S.key(i, j)]).calculate, ref['k']), dtype=float)
        ref['Omega'][:, i, j] = ref['Omega'][:, j, i] = w * ref['site'][i, j]


def judge_solution(spec, scale, pr, res, out, sig, check_closure=True):
    """the three oracles of C01 on one converged object; returns dict of diagnostics"""
    P = target()
    ref = S.reference(spec, scale)
    fill_unknown_omegas(spec, ref)
    n, r, k = ref['n'], ref['r'], ref['k']
    L = len(r)
    if pr.totalCorr.space != P.Space.Real or pr.directCorr.space != P.Space.Fourier:
        out.fail(sig + 'spaces-after-solve', 'after solve totalCorr is %s and directCorr %s (documented: Real / Fourier)' % (pr.totalCorr.space, pr.directCorr.space))
        return {}
    h = np.array(pr.totalCorr.data)
    C = np.array(pr.directCorr.data)
    if h.shape != (L, n, n) or C.shape != (L, n, n):
        out.fail(sig + 'array-shapes', 'stored arrays have shapes %s / %s' % (h.shape, C.shape))
        return {}
    if not (np.all(np.isfinite(res.x)) and np.all(np.isfinite(res.fun))):
        out.fail(sig + 'success-reported-with-non-finite-residual', 'solve (method %s) reports success although the residual / x it returns contain NaN or inf '
                 '(%d non-finite residual entries): nothing on the object can satisfy the equations "to the reported residual"' % (
                     spec.get('method'), int(np.count_nonzero(~np.isfinite(res.fun)))))
        return {}
    if not (np.all(np.isfinite(h)) and np.all(np.isfinite(C))):
        out.fail(sig + 'reported-residual-not-of-stored-arrays', 'solve reports success with finite x and residual (max|fun|=%.3g) but the stored '
                 'totalCorr/directCorr contain NaN/inf: they are not those of the returned x' % float(np.max(np.abs(res.fun))))
        return {}
    H = np.empty_like(h)
    c_real = np.empty_like(C)
    for i in range(n):
        for j in range(n):
            H[:, i, j] = ref['pair'][i, j] * S.to_fourier(ref, h[:, i, j])
            c_real[:, i, j] = S.to_real(ref, C[:, i, j])
    # (1) PRISM equation at every wavenumber
    Om, dOm = ref['Omega'], ref['Omega_tol']
    worst, worst_k = 0.0, -1
    round_trip = 1e-10 * float(np.max(np.abs(H)) + 1e-300)
    for m in range(L):
        A = np.eye(n) - Om[m] @ C[m]
        R = H[m] - Om[m] @ C[m] @ (Om[m] + H[m])
        nO, nC, nH = np.max(np.abs(Om[m])) * n, np.max(np.abs(C[m])) * n, np.max(np.abs(H[m])) * n
        scale_m = nO * nC * (nO + nH) + nH
        try:
            cond = np.linalg.cond(A)
        except np.linalg.LinAlgError:
            cond = np.inf
        tol = 64 * EPS * cond * scale_m * (1 + cond * 0) + 2 * np.max(dOm[m]) * n * nC * (2 * nO + nH) * (1 + cond) + round_trip * (1 + nO * nC)
        ratio = float(np.max(np.abs(R)) / tol) if np.isfinite(tol) and tol > 0 else 0.0
        if ratio > worst:
            worst, worst_k = ratio, m
    if worst > 1.0:
        m = worst_k
        R = H[m] - Om[m] @ C[m] @ (Om[m] + H[m])
        out.fail(sig + 'prism-equation', 'H != Omega C (Omega+H) at k=%.4g: residual %.3g is %.3g x the rounding bound (Omega, rho rebuilt from the spec)' % (
            k[m], float(np.max(np.abs(R))), worst), H=H[m], rhs=Om[m] @ C[m] @ (Om[m] + H[m]), scale=scale)
    diag = {'prism_eq_worst_ratio': worst}
    if not check_closure:
        return diag
    # (3) reported residual is that of the stored arrays
    y = np.asarray(res.fun, dtype=float).reshape((L, n, n))
    gin = np.array(pr.GammaIn.data)
    gout = np.array(pr.GammaOut.data)
    y_st = r.reshape((-1, 1, 1)) * (gout - gin)
    ymax = float(np.max(np.abs(y)))
    if np.max(np.abs(y_st - y)) > 1e-9 * ymax + 1e-13:
        out.fail(sig + 'reported-residual-not-of-stored-arrays', 'minimize_result.fun differs from r*(GammaOut-GammaIn) of the stored arrays by %.3g (max|fun|=%.3g)' % (
            float(np.max(np.abs(y_st - y))), ymax))
    # (2) closure of every pair at every grid distance
    worst_c = 0.0
    for (i, j) in S.pair_indices(n):
        name, flag = spec['closure'][S.key(i, j)]
        u = ref['u'][:, i, j]
        sigma = ref['sigma'][i, j]
        # cost() reads gamma_in of the (i<=j) entry only and stores c symmetrically: (j,i) must be the identical function
        if not np.array_equal(C[:, i, j], C[:, j, i]) or not np.array_equal(h[:, i, j], h[:, j, i]):
            out.fail(sig + 'stored-arrays-not-symmetric', 'stored h or C differ between (%s,%s) and (%s,%s)' % (
                spec['types'][i], spec['types'][j], spec['types'][j], spec['types'][i]))
            return diag
        for (a, b) in ((i, j),):
            c = c_real[:, a, b]
            g_in = gin[:, a, b]
            g_out = h[:, a, b] - c
            if name == 'MS':
                clo = S.make_closure([name, flag])
                clo.potential = u
                clo.sigma = sigma
                with np.errstate(all='ignore'):
                    f_in = np.asarray(clo.calculate(r, g_in), dtype=float)
                    f_out = np.asarray(clo.calculate(r, g_out), dtype=float)
                judged = ref['u_judged'][:, i, j] & ((r <= sigma) | (r >= sigma + O.BAND))
                core = (r <= sigma)
                with np.errstate(all='ignore'):
                    # |dF/dgamma| of the shipped relation F = exp(sqrt(t) - 1) - 1 - gamma, t = gamma - u + 1/2, is
                    # |exp(sqrt(t) - 1) / (2 sqrt(t)) - 1|: it grows without bound as t -> 0 and its first term has a single minimum
                    # (at t = 1), so over [gamma_in, gamma_out] it is largest at an end point; t <= 0 gives an infinite bound (not judged)
                    def e_(t):
                        t = np.maximum(t, 0.0)
                        return np.where(t > 0, np.exp(np.sqrt(t) - 1.0) / (2.0 * np.sqrt(np.maximum(t, 1e-300))), np.inf)
                    slope = np.where(core, 1.0, np.maximum(e_(g_in - u + 0.5), e_(g_out - u + 0.5)) + 1.0)
                mag = np.abs(f_in) + 1.0 + np.abs(g_in)
            else:
                f_in, judged, core = S.closure_value(name, flag, r, g_in, u, sigma)
                f_out, _, _ = S.closure_value(name, flag, r, g_out, u, sigma)
                judged = judged & ref['u_judged'][:, i, j]
                _, mag = O.closure_terms(name, g_in, u)
                slope = np.where(core, 1.0, O.closure_slope(name, g_in, g_out, u))
                mag = np.where(core, 1.0 + np.abs(g_in), mag)
            # DST round trip of c: eps * N * max|r c| / r_i
            rt = 64 * EPS * L * float(np.max(np.abs(r * c)) + 1e-300) / r
            with np.errstate(all='ignore'):
                bad_in = judged & (np.abs(c - f_in) > 1e-9 * mag + rt) & np.isfinite(mag)
            if np.any(bad_in):
                m = int(np.flatnonzero(bad_in)[0])
                out.fail(sig + 'closure-not-applied-to-this-pair', 'pair %s-%s (%s%s): stored c(r=%.4g)=%r but F(gamma_in,u_ref)=%r (u/kT=%r, sigma=%r)' % (
                    spec['types'][a], spec['types'][b], name, ', hard-core flag' if flag else '', r[m], float(c[m]), float(f_in[m]), float(u[m]), float(sigma)),
                    scale=scale)
                return diag
            with np.errstate(all='ignore'):
                bound = slope * np.abs(y[:, a, b]) / r + 1e-9 * mag + rt
                dev = np.abs(c - f_out)
                bad = judged & (dev > bound) & np.isfinite(bound)
                worst_c = max(worst_c, float(np.max(np.where(judged & np.isfinite(bound) & (bound > 0), dev / bound, 0.0))))
            if np.any(bad):
                m = int(np.flatnonzero(bad)[0])
                out.fail(sig + 'closure-relation-beyond-residual', 'pair %s-%s (%s): |c - F(h-c,u)| = %.3g at r=%.4g exceeds slope*|y|/r = %.3g' % (
                    spec['types'][a], spec['types'][b], name, float(dev[m]), r[m], float(bound[m])), scale=scale)
                return diag
    diag['closure_worst_ratio'] = worst_c
    diag['nontrivial'] = bool(np.any((ref['u'] != 0) & (ref['u'] < 1e3)) or np.max(np.abs(ref['pair'] * h)) > 1e-3)
    return diag


def labels_of(spec, out):
    out.label('rank=%d' % len(spec['types']), 'method=' + spec.get('method', 'krylov'), 'assign=' + spec.get('assign', 'pair-by-pair'))
    for v in spec['closure'].values():
        out.label('closure=' + v[0] + ('+hc' if v[1] else ''))
    for v in spec['potential'].values():
        out.label('potential=' + v[0])
    for kk, v in spec['omega'].items():
        out.label('omega=' + v[0])


class Ladder(Sub):
    name = 'ladder'
    doc = 'generated systems solved on a density continuation ladder; every converged rung judged by the three oracles'
    budget = {'quick': 160, 'thorough': 24000}
    shrink = {'quick': False, 'thorough': True}

    def strategy(self, tier):
        return st.tuples(S.system_spec(big=(tier == 'thorough'), methods=('krylov', 'krylov', 'krylov', 'krylov', 'anderson', 'broyden2', 'df-sane')),
                         st.one_of(st.none(), st.none(), specs.array_desc(4, (-4, -2))), st.booleans(),
                         st.one_of(st.just('plain'), st.sampled_from(S.CALL_STYLES + ('resolve-same-object',)))).map(lambda t: dict(t[0], perturb=t[1], sweep=t[2], call=t[3]))

    def check(self, spec):
        from . import build
        out = Outcome()
        sig = PID + '/'
        labels_of(spec, out)
        perturb = None
        if spec.get('perturb') is not None:
            n = len(spec['types']) ** 2 * spec['domain']['length']
            perturb = np.clip(build.array(spec['perturb'], n), -0.05, 0.05)
            out.label('guess=perturbed')
        judged = 0
        info = {}
        if spec.get('sweep'):
            out.label('one-System-swept')
        out.label('call=' + spec.get('call', 'plain'))
        for scale, pr, res in S.solve_ladder(spec, perturb=perturb, reuse_system=bool(spec.get('sweep')), call=spec.get('call', 'plain')):
            if res is None or not res.success:
                out.label('rung-not-converged')
                break
            d = judge_solution(spec, scale, pr, res, out, sig)
            judged += 1
            out.nontrivial = out.nontrivial or bool(d.get('nontrivial'))
            for kk in ('prism_eq_worst_ratio', 'closure_worst_ratio'):
                if kk in d:
                    info[kk] = max(info.get(kk, 0.0), d[kk])
            if out.violations:
                break
        out.info = info
        out.label('rungs-judged=%d' % judged)
        if judged == 0:
            out.skipped = 'no-rung-converged'
        return out


class DenseMethods(Sub):
    name = 'dense-methods'
    doc = 'hybr / lm (dense Jacobian) on 128-point grids, 1-2 types'
    budget = {'quick': 12, 'thorough': 640}
    shrink = {'quick': False, 'thorough': False}

    def strategy(self, tier):
        def shrink_grid(spec):
            spec = dict(spec)
            spec['domain'] = {'length': 128, 'dr': 0.2}
            spec['dia'] = [1.0 for _ in spec['dia']]
            return spec
        return S.system_spec(max_types=2, methods=('hybr', 'lm', 'hybr')).map(shrink_grid)

    def check(self, spec):
        out = Outcome()
        labels_of(spec, out)
        judged = 0
        for scale, pr, res in S.solve_ladder(spec, ladder=(0.25, 1.0), maxiter=30):
            if res is None or not res.success:
                break
            d = judge_solution(spec, scale, pr, res, out, PID + '/')
            judged += 1
            out.nontrivial = out.nontrivial or bool(d.get('nontrivial'))
            if out.violations:
                break
        out.label('rungs-judged=%d' % judged)
        if judged == 0:
            out.skipped = 'no-rung-converged'
        return out


SUBS = [Ladder(), DenseMethods()]
