"""Shared runner: seeding, sharding, statistics, evidence, replay, known findings, exit codes.

Exit codes: 0 = property held on everything explored, 1 = violation (a line
``VIOLATION property=<id> replay=<path>`` is printed), 2 = harness error
(never reported as a violation).
"""
from __future__ import annotations

import collections
import hashlib
import importlib
import json
import math
import os
import sys
import time
import traceback
import warnings

VERIF_ROOT = os.path.dirname(os.path.dirname(os.path.abspath(__file__)))
SRC_ROOT = os.path.realpath(os.environ.get('PYPRISM_SRC', '/repo'))
PKG_ROOT = os.path.join(SRC_ROOT, 'pyPRISM')
GUARD = 'PYPRISM_VERIF'
# where evidence/ and replays/ are written (overridden only by the mutant self-test)
OUT_ROOT = os.environ.get('PBT_OUT_ROOT', VERIF_ROOT)

EXIT_OK, EXIT_VIOLATION, EXIT_HARNESS = 0, 1, 2


class HarnessError(Exception):
    """Something is wrong with the machinery itself (exit 2)."""


class ViolationFound(AssertionError):
    """Raised inside a Hypothesis test body to make Hypothesis shrink the case."""


class Violation(object):
    __slots__ = ('signature', 'message', 'detail')

    def __init__(self, signature, message, detail=None):
        self.signature = signature
        self.message = message
        self.detail = detail or {}

    def as_dict(self):
        return {'signature': self.signature, 'message': self.message,
                'detail': sanitize(self.detail)}


class Outcome(object):
    """What one evaluated case produced."""

    def __init__(self):
        self.violations = []
        self.nontrivial = False
        self.labels = []
        self.skipped = None     # reason string when the case could not be judged
        self.info = {}          # free-form numbers worth keeping with a sample

    def fail(self, signature, message, **detail):
        self.violations.append(Violation(signature, message, detail))

    def label(self, *names):
        self.labels.extend(names)

    def extend(self, other):
        self.violations.extend(other.violations)
        self.labels.extend(other.labels)
        self.nontrivial = self.nontrivial or other.nontrivial


# --------------------------------------------------------------------------
# target import

_target = None


def target():
    """Import pyPRISM from the source root (the current working tree) exactly once."""
    global _target
    if _target is None:
        os.environ.setdefault(GUARD, '1')
        warnings.simplefilter('ignore')
        if sys.path[0] != SRC_ROOT:
            sys.path.insert(0, SRC_ROOT)
        sys.dont_write_bytecode = True
        import pyPRISM  # noqa
        here = os.path.realpath(pyPRISM.__file__)
        if not here.startswith(PKG_ROOT + os.sep):
            raise HarnessError('pyPRISM imported from %s, expected under %s' % (here, PKG_ROOT))
        _target = pyPRISM
    return _target


# --------------------------------------------------------------------------
# JSON helpers

def _default(o):
    import numpy as np
    if isinstance(o, np.ndarray):
        return o.tolist()
    if isinstance(o, (np.floating,)):
        return float(o)
    if isinstance(o, (np.integer,)):
        return int(o)
    if isinstance(o, (np.bool_,)):
        return bool(o)
    if isinstance(o, (set, frozenset)):
        return sorted(o)
    return repr(o)


def canon(spec):
    return json.dumps(spec, sort_keys=True, separators=(',', ':'), default=_default)


def case_hash(sub, spec):
    return hashlib.sha1((sub + '|' + canon(spec)).encode()).hexdigest()[:16]


def sanitize(o, depth=0):
    """Make a structure strictly JSON-valid (no NaN/Infinity) and bounded in size."""
    import numpy as np
    if isinstance(o, dict):
        return {str(k): sanitize(v, depth + 1) for k, v in o.items()}
    if isinstance(o, np.ndarray):
        o = o.tolist()
    if isinstance(o, (list, tuple)):
        if len(o) > 40:
            return [sanitize(v, depth + 1) for v in o[:20]] + ['... %d more' % (len(o) - 20)]
        return [sanitize(v, depth + 1) for v in o]
    if isinstance(o, (bool, type(None), str, int)):
        return o
    if isinstance(o, (np.integer,)):
        return int(o)
    if isinstance(o, (float, np.floating)):
        f = float(o)
        return f if math.isfinite(f) else repr(f)
    return repr(o)


# --------------------------------------------------------------------------
# known findings

def load_known(pid):
    path = os.path.join(VERIF_ROOT, 'pbt', 'known_findings.json')
    with open(path) as fh:
        data = json.load(fh)
    out = {}
    for entry in data.get('findings', []):
        if entry['property'] == pid:
            out[entry['signature']] = entry
    return out


# --------------------------------------------------------------------------
# sub-check base classes

class Sub(object):
    """One generated-input sub-check of a property."""
    name = ''
    kind = 'given'                       # 'given' | 'enum' | 'machine'
    budget = {'quick': 100, 'thorough': 1600}   # total cases over all shards
    shrink = {'quick': True, 'thorough': True}
    doc = ''

    def strategy(self, tier):
        raise NotImplementedError

    def enumerate(self, tier):
        raise NotImplementedError

    def check(self, spec):
        raise NotImplementedError


class History(Sub):
    """A model-based history check driven by a Hypothesis RuleBasedStateMachine.

    The machine records every executed operation in a JSON trace; the replay
    file is ``{"params":…, "trace":[…]}`` and :meth:`check` re-executes it with
    no Hypothesis involved.
    """
    kind = 'machine'
    steps = {'quick': 20, 'thorough': 30}

    def params_strategy(self, tier):
        raise NotImplementedError

    def ops(self, tier):
        """dict op-name -> dict(arg-name -> strategy)"""
        raise NotImplementedError

    def init(self, params, out):
        """build the state (real objects + model); may record violations in out"""
        raise NotImplementedError

    def apply(self, state, op, out):
        raise NotImplementedError

    def finish(self, state, trace, out):
        """set labels / nontrivial on out at the end of a history"""

    def precondition(self, state, opname):
        return True

    def check(self, spec):
        out = Outcome()
        state = self.init(spec['params'], out)
        done = []
        for op in spec['trace']:
            if not self.precondition(state, op['op']):
                continue
            self.apply(state, op, out)
            done.append(op)
        self.finish(state, done, out)
        return out


# --------------------------------------------------------------------------
# statistics

class Stats(object):
    def __init__(self):
        self.evaluations = 0
        self.per_sub = collections.OrderedDict()
        self.hashes = set()
        self.labels = collections.Counter()
        self.skipped = collections.Counter()
        self.excluded_known = collections.Counter()
        self.samples = collections.OrderedDict()
        self.exhaustive = {}
        self.failures = []     # dicts: sub, spec, violations
        self.notes = []
        self.soft_errors = []

    def sub(self, name):
        if name not in self.per_sub:
            self.per_sub[name] = {'evaluations': 0, 'nontrivial': 0, 'skipped': 0}
            self.samples[name] = []
        return self.per_sub[name]

    def record(self, subname, spec, out, max_samples=3):
        s = self.sub(subname)
        self.evaluations += 1
        s['evaluations'] += 1
        for lab in out.labels:
            self.labels[subname + ':' + lab] += 1
        if out.skipped:
            s['skipped'] += 1
            self.skipped[subname + ':' + out.skipped] += 1
        if out.nontrivial:
            h = case_hash(subname, spec)
            if h not in self.hashes:
                self.hashes.add(h)
                s['nontrivial'] += 1
                if len(self.samples[subname]) < max_samples:
                    smp = {'case': sanitize(spec)}
                    if out.info:
                        smp['observed'] = sanitize(out.info)
                    if out.labels:
                        smp['labels'] = sorted(set(out.labels))
                    self.samples[subname].append(smp)

    def dump(self):
        return {'evaluations': self.evaluations, 'per_sub': self.per_sub,
                'hashes': sorted(self.hashes), 'labels': dict(self.labels),
                'skipped': dict(self.skipped), 'excluded_known': dict(self.excluded_known),
                'samples': self.samples, 'exhaustive': self.exhaustive,
                'failures': self.failures, 'notes': self.notes}

    def merge(self, d):
        self.evaluations += d['evaluations']
        for name, v in d['per_sub'].items():
            s = self.sub(name)
            s['evaluations'] += v['evaluations']
            s['skipped'] += v['skipped']
        new = set(d['hashes']) - self.hashes
        self.hashes |= new
        # recount nontrivial per sub from the union is not possible without the
        # sub in the hash; shards explore disjoint seeds so we add the per-shard
        # numbers and correct the total with the union size below.
        for name, v in d['per_sub'].items():
            self.per_sub[name]['nontrivial'] += v['nontrivial']
        self.labels.update(d['labels'])
        self.skipped.update(d['skipped'])
        self.excluded_known.update(d['excluded_known'])
        for name, smp in d['samples'].items():
            cur = self.samples.setdefault(name, [])
            for s in smp:
                if len(cur) < 3:
                    cur.append(s)
        for k, v in d['exhaustive'].items():
            self.exhaustive[k] = self.exhaustive.get(k, True) and v
        self.failures.extend(d['failures'])
        self.notes.extend(d['notes'])


# --------------------------------------------------------------------------
# evaluating one case

def _target_frame(tb):
    """innermost traceback frame that lies in the package under test, or None"""
    hit = None
    for fs in traceback.extract_tb(tb):
        fn = os.path.realpath(fs.filename)
        if fn.startswith(PKG_ROOT + os.sep):
            hit = (os.path.relpath(fn, SRC_ROOT), fs.name, fs.lineno)
    return hit


def evaluate(pid, sub, spec, stats, known, record=True):
    """Run sub.check(spec); returns (outcome, [violations not listed as known])."""
    try:
        out = sub.check(spec)
    except HarnessError:
        raise
    except Exception as exc:  # classify by where it was raised
        hit = _target_frame(exc.__traceback__)
        if hit is None and isinstance(exc, AttributeError) and getattr(exc, 'obj', None) is not None:
            # the check asked an object of the package under test (or something it returned in place of a result) for a documented
            # attribute and it is not there: that is a statement about the code under test, not about the harness
            o = exc.obj
            mod_ = getattr(type(o), '__module__', '') or ''
            mod2 = getattr(o, '__module__', '') or ''
            if mod_.startswith('pyPRISM') or (isinstance(mod2, str) and mod2.startswith('pyPRISM')):
                hit = ('(attribute access by the check)', type(o).__name__, 0)
        if hit is None:
            raise HarnessError('exception in harness code for %s/%s: %s\nspec=%s\n%s' % (
                pid, sub.name, exc, canon(spec)[:2000], traceback.format_exc()))
        out = Outcome()
        out.fail('%s/%s/unexpected-exception/%s@%s:%s' % (pid, sub.name, type(exc).__name__, hit[0], hit[1]),
                 'unexpected %s from the code under test: %s' % (type(exc).__name__, exc),
                 traceback=traceback.format_exc()[-1500:])
    new = []
    for v in out.violations:
        k = known.get(v.signature)
        if k is not None and k.get('status') == 'known':
            stats.excluded_known[v.signature] += 1
        else:
            new.append(v)
    if record:
        stats.record(sub.name, spec, out)
    return out, new


# --------------------------------------------------------------------------
# drivers

def _settings(n, shrink, steps=None):
    from hypothesis import settings, HealthCheck, Phase, Verbosity
    phases = [Phase.generate, Phase.target] + ([Phase.shrink] if shrink else [])
    kw = dict(max_examples=max(1, n), database=None, deadline=None, derandomize=False,
              report_multiple_bugs=False, suppress_health_check=list(HealthCheck),
              phases=phases, verbosity=Verbosity.quiet, print_blob=False)
    if steps is not None:
        kw['stateful_step_count'] = steps
    return settings(**kw)


def drive_given(pid, sub, tier, n, seedval, stats, known):
    from hypothesis import given, seed
    holder = {}

    @seed(seedval)
    @_settings(n, sub.shrink[tier])
    @given(sub.strategy(tier))
    def body(spec):
        # what is checked is exactly what a replay file would contain: the JSON image of the generated spec (no shared
        # sub-objects, no tuples) -- otherwise a failure might not reproduce from its replay file
        spec = json.loads(canon(spec))
        out, new = evaluate(pid, sub, spec, stats, known, record='fail' not in holder)
        if new:
            holder['fail'] = {'sub': sub.name, 'spec': spec,
                              'violations': [v.as_dict() for v in new]}
            raise ViolationFound(new[0].signature)

    try:
        body()
    except ViolationFound:
        stats.failures.append(holder['fail'])
    except HarnessError:
        raise
    except Exception as exc:
        name = type(exc).__name__
        if 'fail' in holder and name in ('Flaky', 'FlakyFailure', 'FlakyReplay'):
            # the violation did not reproduce while shrinking: report the first instance,
            # flagged, rather than hide it
            holder['fail']['flaky'] = True
            stats.failures.append(holder['fail'])
        else:
            raise HarnessError('hypothesis error in %s/%s: %s: %s\n%s' % (
                pid, sub.name, name, exc, traceback.format_exc()))


def drive_enum(pid, sub, tier, shard, nshards, stats, known):
    complete = True
    for i, spec in enumerate(sub.enumerate(tier)):
        if i % nshards != shard:
            continue
        out, new = evaluate(pid, sub, spec, stats, known)
        if new:
            stats.failures.append({'sub': sub.name, 'spec': spec,
                                   'violations': [v.as_dict() for v in new]})
            complete = False
            break
    stats.exhaustive[sub.name] = complete


def drive_machine(pid, sub, tier, n, seedval, stats, known):
    from hypothesis import seed, strategies as st
    from hypothesis.stateful import RuleBasedStateMachine, rule, initialize, run_state_machine_as_test, precondition
    holder = {}
    opdefs = sub.ops(tier)

    class Machine(RuleBasedStateMachine):
        def __init__(self):
            super(Machine, self).__init__()
            self.out = Outcome()
            self.trace = []
            self.params = None
            self.state = None

        @initialize(params=sub.params_strategy(tier))
        def _init(self, params):
            params = json.loads(canon(params))
            self.params = params
            try:
                self.state = sub.init(params, self.out)
            except HarnessError:
                raise
            except Exception as exc:
                self._exception(exc)
            self._after()

        def _exception(self, exc):
            hit = _target_frame(exc.__traceback__)
            if hit is None:
                raise HarnessError('exception in harness code for %s/%s: %s\n%s' % (
                    pid, sub.name, exc, traceback.format_exc()))
            self.out.fail('%s/%s/unexpected-exception/%s@%s:%s' % (pid, sub.name, type(exc).__name__, hit[0], hit[1]),
                          'unexpected %s from the code under test: %s' % (type(exc).__name__, exc),
                          traceback=traceback.format_exc()[-1500:])

        def _step(self, op):
            if self.state is None:
                return
            self.trace.append(op)
            try:
                sub.apply(self.state, op, self.out)
            except HarnessError:
                raise
            except Exception as exc:
                self._exception(exc)
            self._after()

        def _after(self):
            new = []
            for v in self.out.violations:
                k = known.get(v.signature)
                if k is not None and k.get('status') == 'known':
                    stats.excluded_known[v.signature] += 1
                else:
                    new.append(v)
            self.out.violations = []
            if new:
                holder['fail'] = {'sub': sub.name,
                                  'spec': {'params': self.params, 'trace': list(self.trace)},
                                  'violations': [v.as_dict() for v in new]}
                raise ViolationFound(new[0].signature)

        def teardown(self):
            if self.params is None:
                return
            if self.state is not None:
                try:
                    sub.finish(self.state, self.trace, self.out)
                except HarnessError:
                    raise
                except Exception as exc:
                    self._exception(exc)
                    self._after()
            if 'fail' not in holder:
                stats.record(sub.name, {'params': self.params, 'trace': self.trace}, self.out)

    def make_rule(opname, args):
        def fn(self, **kw):
            op = {'op': opname}
            op.update(kw)
            self._step(json.loads(canon(op)))
        fn.__name__ = str('op_' + opname)
        fn = rule(**args)(fn)
        fn = precondition(lambda self: self.state is not None and sub.precondition(self.state, opname))(fn)
        return fn

    for opname, args in opdefs.items():
        setattr(Machine, 'op_' + opname, make_rule(opname, args))

    # a history whose initial state could not be built (e.g. the solver did not converge) has no applicable operation:
    # give Hypothesis a rule that does nothing so that it can finish the (empty) history
    def _idle(self):
        pass
    _idle = precondition(lambda self: self.state is None or not any(sub.precondition(self.state, o) for o in opdefs))(rule()(_idle))
    Machine.op__idle = _idle

    try:
        run_state_machine_as_test(seed(seedval)(Machine),
                                  settings=_settings(n, sub.shrink[tier], steps=sub.steps[tier]))
    except ViolationFound:
        stats.failures.append(holder['fail'])
    except HarnessError:
        raise
    except Exception as exc:
        name = type(exc).__name__
        if 'fail' in holder and name in ('Flaky', 'FlakyFailure', 'FlakyReplay'):
            holder['fail']['flaky'] = True
            stats.failures.append(holder['fail'])
        else:
            raise HarnessError('hypothesis error in %s/%s: %s: %s\n%s' % (
                pid, sub.name, name, exc, traceback.format_exc()))


def load_module(pid):
    return importlib.import_module('pbt.' + pid.lower())


def run_shard(args):
    """Worker: run every sub-check of a property for one shard; returns a JSON-able dict."""
    pid, tier, seedval, shard, nshards, only = args
    try:
        target()
        mod = load_module(pid)
        known = load_known(pid)
        stats = Stats()
        harness_errors = []
        for idx, sub in enumerate(mod.SUBS):
            if only and sub.name not in only:
                continue
            total = sub.budget[tier]
            n = total // nshards + (1 if shard < total % nshards else 0)
            sseed = (seedval * 1000003 + shard * 7919 + idx * 104729) % (2 ** 31)
            try:
                if sub.kind == 'enum':
                    drive_enum(pid, sub, tier, shard, nshards, stats, known)
                elif n <= 0:
                    continue
                elif sub.kind == 'machine':
                    drive_machine(pid, sub, tier, n, sseed, stats, known)
                else:
                    drive_given(pid, sub, tier, n, sseed, stats, known)
            except HarnessError as exc:
                # one sub-check could not digest what the code under test handed it: the other sub-checks still run -- if they
                # report a violation the run ends as a violation (exit 1), otherwise as a harness error (exit 2)
                harness_errors.append(str(exc))
        return {'ok': True, 'stats': stats.dump(), 'harness_errors': harness_errors}
    except HarnessError as exc:
        return {'ok': False, 'error': str(exc)}
    except Exception:
        return {'ok': False, 'error': traceback.format_exc()}


def replay_regress(pid, mod, stats, known):
    """Always-replayed saved cases (the seconds-long replay tier)."""
    d = os.path.join(VERIF_ROOT, 'pbt', 'regress', pid)
    if not os.path.isdir(d):
        return 0
    subs = {s.name: s for s in mod.SUBS}
    n = 0
    for fn in sorted(os.listdir(d)):
        if not fn.endswith('.json'):
            continue
        with open(os.path.join(d, fn)) as fh:
            rec = json.load(fh)
        sub = subs.get(rec['sub'])
        if sub is None:
            raise HarnessError('regress file %s names unknown sub-check %s' % (fn, rec['sub']))
        try:
            out, new = evaluate(pid, sub, rec['spec'], stats, known)
        except HarnessError as exc:
            # kept for the verdict at the end of the run (see run_shard): a violation found elsewhere takes precedence
            stats.soft_errors.append(str(exc))
            n += 1
            continue
        n += 1
        if new:
            stats.failures.append({'sub': sub.name, 'spec': rec['spec'], 'regress_file': fn,
                                   'violations': [v.as_dict() for v in new]})
    return n


def write_replay(pid, failure):
    d = os.path.join(OUT_ROOT, 'replays', pid)
    os.makedirs(d, exist_ok=True)
    h = case_hash(failure['sub'], failure['spec'])
    path = os.path.join(d, '%s-%s.json' % (failure['sub'], h))
    with open(path, 'w') as fh:
        json.dump({'property': pid, 'sub': failure['sub'], 'spec': failure['spec'],
                   'violations': failure['violations'], 'flaky': failure.get('flaky', False)},
                  fh, indent=1, default=_default)
    return path


def write_evidence(pid, mod, tier, seedval, stats, wall, nviol, nregress, nshards):
    samples = []
    for name, smp in stats.samples.items():
        for s in smp:
            samples.append(dict(sub=name, **s))
    subs_doc = {s.name: s.doc for s in mod.SUBS}
    cov = {
        'evaluations': stats.evaluations,
        'distinct_nontrivial': len(stats.hashes),
        'rule': mod.RULE,
        'samples': samples,
        'per_subcheck': {k: dict(v, what=subs_doc.get(k, '')) for k, v in stats.per_sub.items()},
        'labels': dict(sorted(stats.labels.items())),
        'not_judged': dict(sorted(stats.skipped.items())),
        'excluded_known_findings': dict(stats.excluded_known),
        'regress_cases_replayed': nregress,
        'shards': nshards,
        'exhaustive': bool(stats.exhaustive) and all(stats.exhaustive.values()) and
                      all(s.kind == 'enum' for s in mod.SUBS),
        'exhaustive_subchecks': stats.exhaustive,
        'source_root': SRC_ROOT,
    }
    if stats.notes:
        cov['notes'] = stats.notes[:20]
    ev = {'property_id': pid, 'tier': tier, 'seed': int(seedval), 'level': 'exploration',
          'coverage': cov, 'assumptions': list(getattr(mod, 'ASSUMPTIONS', [])),
          'wall_s': round(wall, 3), 'violations': int(nviol)}
    d = os.path.join(OUT_ROOT, 'evidence')
    os.makedirs(d, exist_ok=True)
    tmp = os.path.join(d, pid + '.json.tmp')
    with open(tmp, 'w') as fh:
        json.dump(ev, fh, indent=1, default=_default)
    os.replace(tmp, os.path.join(d, pid + '.json'))


def run_property(pid, tier, seedval, procs=None, only=None):
    t0 = time.time()
    target()
    mod = load_module(pid)
    known = load_known(pid)
    nshards = mod.SHARDS[tier] if hasattr(mod, 'SHARDS') else {'quick': 4, 'thorough': 16}[tier]
    procs = procs or min(nshards, os.cpu_count() or 1)
    stats = Stats()
    nregress = replay_regress(pid, mod, stats, known)
    jobs = [(pid, tier, seedval, i, nshards, only) for i in range(nshards)]
    if procs <= 1 or nshards == 1:
        results = [run_shard(j) for j in jobs]
    else:
        import multiprocessing as mp
        ctx = mp.get_context('fork')
        with ctx.Pool(procs) as pool:
            results = pool.map(run_shard, jobs, chunksize=1)
    errors = [r['error'] for r in results if not r['ok']]
    soft = list(stats.soft_errors) + [e for r in results if r['ok'] for e in r.get('harness_errors', [])]
    for r in results:
        if r['ok']:
            stats.merge(r['stats'])
    if errors or (soft and not stats.failures):
        sys.stderr.write('HARNESS ERROR in %s:\n%s\n' % (pid, '\n---\n'.join(errors + soft)))
        return EXIT_HARNESS
    if soft:
        # violations were found by other sub-checks: they are the verdict; the sub-checks that could not process what the code
        # under test returned are listed for the record
        sys.stderr.write('note: %d sub-check run(s) of %s stopped with an exception in harness code on this tree:\n%s\n' % (
            len(soft), pid, '\n---\n'.join(e[:600] for e in soft[:3])))
        stats.notes.append('sub-check runs stopped by an exception in harness code: %d' % len(soft))
    # vacuity guard: a sub-check that could judge (almost) none of its cases decides nothing.  On the unchanged tree at most 40 % of the
    # cases of any sub-check are set aside (systems on which no solve converges); if more than 80 % are, something stops the code
    # under test from producing judgeable results at all, and "no violation" would be an empty statement -> inconclusive (exit 2)
    vacuous = ['%s: %d of %d cases not judged' % (name, v['skipped'], v['evaluations']) for name, v in stats.per_sub.items()
               if v['evaluations'] >= 10 and v['skipped'] > 0.8 * v['evaluations']]
    if vacuous and not stats.failures:
        sys.stderr.write('HARNESS ERROR in %s: inconclusive, %s (reasons: %s)\n' % (pid, '; '.join(vacuous), dict(stats.skipped)))
        return EXIT_HARNESS
    # one replay file / VIOLATION line per distinct signature
    seen = {}
    for f in stats.failures:
        sig = f['violations'][0]['signature']
        if sig not in seen:
            seen[sig] = f
    wall = time.time() - t0
    write_evidence(pid, mod, tier, seedval, stats, wall, len(seen), nregress, nshards)
    print('%s tier=%s seed=%d evaluations=%d distinct_nontrivial=%d wall=%.1fs' % (
        pid, tier, seedval, stats.evaluations, len(stats.hashes), wall))
    for sig, entry in sorted(known.items()):
        if entry.get('status') == 'known':
            print('KNOWN-FINDING: property=%s %s [observed %d times this run; signature %s]' % (
                pid, entry['what'], stats.excluded_known.get(sig, 0), sig))
    for sig, f in seen.items():
        path = write_replay(pid, f)
        print('  violated: %s -- %s' % (sig, f['violations'][0]['message']))
        print('VIOLATION property=%s replay=%s' % (pid, path))
    return EXIT_VIOLATION if seen else EXIT_OK


def run_replay(pid, path):
    target()
    mod = load_module(pid)
    known = load_known(pid)
    with open(path) as fh:
        rec = json.load(fh)
    subs = {s.name: s for s in mod.SUBS}
    sub = subs[rec['sub']]
    stats = Stats()
    out, new = evaluate(pid, sub, rec['spec'], stats, known)
    for v in out.violations:
        tag = 'known' if v not in new else 'NEW'
        print('[%s] %s -- %s' % (tag, v.signature, v.message))
        if v.detail:
            print('      ' + json.dumps(sanitize(v.detail), default=_default)[:1500])
    if new:
        print('VIOLATION property=%s replay=%s' % (pid, path))
        return EXIT_VIOLATION
    print('%s replay %s: no violation' % (pid, path))
    return EXIT_OK
