#!/bin/sh
# Offline setup: the framework is pure Python; make sure Hypothesis is importable in /venv.
set -e
cd "$(dirname "$0")"
if ! /venv/bin/python -c "import hypothesis, numpy, scipy" 2>/dev/null; then
  PIP_NO_INDEX=1 /venv/bin/pip install --no-index --find-links /opt/veriftools/wheels hypothesis
fi
/venv/bin/python -c "import hypothesis, numpy, scipy; print('hypothesis', hypothesis.__version__, 'numpy', numpy.__version__, 'scipy', scipy.__version__)"
mkdir -p evidence replays
PYTHONDONTWRITEBYTECODE=1 /venv/bin/python -c "
import sys; sys.path.insert(0,'.')
from pbt import core; core.target(); print('pyPRISM imported from', core.SRC_ROOT)"
