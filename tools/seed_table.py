#!/usr/bin/env python3
"""print the markdown table of DESIGN.md section 9 from seeded/*/meta.json"""
import glob, json, os
ROOT = os.path.dirname(os.path.dirname(os.path.abspath(__file__)))
print('| seed | property | change (one line) | needs, to manifest | caught by (quick tier) | missed at first? what was strengthened |')
print('|---|---|---|---|---|---|')
for f in sorted(glob.glob(os.path.join(ROOT, 'seeded', '*', 'meta.json'))):
    m = json.load(open(f))
    sid = os.path.basename(os.path.dirname(f))
    def one(s, n):
        s = ' '.join(str(s).split())
        return (s[:n] + '…') if len(s) > n else s
    caught = ', '.join(m.get('caught_by', [])) or '**none**'
    first = []
    for p, v in m.get('verified', {}).get('checks', {}).items():
        if v.get('first_violation'):
            first.append(v['first_violation'].split(' -- ')[0])
    miss = ('yes — ' + m.get('strengthening', '')) if m.get('missed_when_first_run') else (m.get('strengthening') or 'no')
    print('| %s | %s | %s | %s | %s (%s) | %s |' % (sid, m['property'], one(m.get('summary', ''), 230), one(m.get('needs', ''), 200), caught, '; '.join(first)[:160], one(miss, 260)))
