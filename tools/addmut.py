#!/usr/bin/env python3
"""append mutants / known-finding entries from a JSON file given on argv (helper for editing the committed lists)"""
import json, sys, os
ROOT = os.path.dirname(os.path.dirname(os.path.abspath(__file__)))
def main():
    add = json.load(open(sys.argv[1]))
    if add.get('mutants'):
        p = os.path.join(ROOT, 'pbt', 'mutants.json')
        d = json.load(open(p))
        ids = {m['id'] for m in d['mutants']}
        for m in add['mutants']:
            if m['id'] in ids:
                d['mutants'] = [m if x['id'] == m['id'] else x for x in d['mutants']]
            else:
                d['mutants'].append(m)
        json.dump(d, open(p, 'w'), indent=1)
    if add.get('findings'):
        p = os.path.join(ROOT, 'pbt', 'known_findings.json')
        d = json.load(open(p))
        sigs = {m['signature'] for m in d['findings']}
        for m in add['findings']:
            if m['signature'] in sigs:
                d['findings'] = [m if x['signature'] == m['signature'] else x for x in d['findings']]
            else:
                d['findings'].append(m)
        json.dump(d, open(p, 'w'), indent=1)
    if add.get('claims'):
        p = os.path.join(ROOT, 'tools', 'claims.json')
        d = json.load(open(p))
        d.update(add['claims'])
        json.dump(d, open(p, 'w'), indent=1)
main()
