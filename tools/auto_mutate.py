#!/usr/bin/env python3
"""Automatic mutation analysis (a diagnosis of the checks, not a check): generate first-order mutants of pyPRISM from the AST
(arithmetic / comparison operator swaps, constant changes, dropped unary minus / not, boolean swaps, swapped subscripts (a,b) ->
(b,a)), apply each to a scratch copy of /repo/pyPRISM (outside /repo and /verif), and run the quick tier of the properties
anchored in the mutated file with PYPRISM_SRC pointing at the copy until one of them reports a violation.

Mutants that survive are printed for review: each is either semantically equivalent for the listed properties or a gap.

usage: tools/auto_mutate.py [--files core/Domain.py,closure/PercusYevick.py] [-j 8] [--limit N] [--out report.json] [--seed 1]
"""
import argparse, ast, copy, json, os, shutil, subprocess, sys, tempfile, time, warnings
warnings.filterwarnings("ignore", category=SyntaxWarning)
from concurrent.futures import ThreadPoolExecutor
ROOT = os.path.dirname(os.path.dirname(os.path.abspath(__file__)))
REPO = '/repo'
PROPS = {
    'core/Domain.py': ['C07', 'C08'], 'core/MatrixArray.py': ['C13', 'C07', 'C05'], 'core/IdentityMatrixArray.py': ['C13', 'C01'],
    'core/PairTable.py': ['C14', 'C15', 'C16'], 'core/ValueTable.py': ['C14', 'C15'], 'core/Table.py': ['C14', 'C15'],
    'core/Density.py': ['C15', 'C16', 'C01'], 'core/Diameter.py': ['C15', 'C16', 'C10'], 'core/System.py': ['C16', 'C01'],
    'core/PRISM.py': ['C01', 'C03', 'C16', 'C06', 'C10'], 'core/Space.py': ['C13', 'C07'],
    'util/UnitConverter.py': ['C17'],
}
for f in ('PercusYevick', 'HyperNettedChain', 'MeanSphericalApproximation', 'MartynovSarkisov', 'AtomicClosure', 'Closure'):
    PROPS['closure/%s.py' % f] = ['C09', 'C03', 'C01']
for f in ('HardSphere', 'Exponential', 'LennardJones', 'HardCoreLennardJones', 'WeeksChandlerAndersen', 'Potential'):
    PROPS['potential/%s.py' % f] = ['C10', 'C02']
for f in ('Gaussian', 'FreelyJointedChain', 'GaussianRing', 'DiscreteKoyama', 'NonOverlappingFreelyJointedChain', 'SingleSite', 'NoIntra',
          'InterMolecular', 'Omega'):
    PROPS['omega/%s.py' % f] = ['C11', 'C01']
for f in ('FromArray', 'FromFile'):
    PROPS['omega/%s.py' % f] = ['C12']
for f in ('chi', 'pair_correlation', 'pmf', 'second_virial', 'solvation_potential', 'spinodal_condition', 'structure_factor'):
    PROPS['calculate/%s.py' % f] = ['C05', 'C06']

BIN = {ast.Add: ast.Sub, ast.Sub: ast.Add, ast.Mult: ast.Div, ast.Div: ast.Mult, ast.Pow: ast.Mult}
CMP = {ast.Lt: ast.LtE, ast.LtE: ast.Lt, ast.Gt: ast.GtE, ast.GtE: ast.Gt, ast.Eq: ast.NotEq, ast.NotEq: ast.Eq, ast.Is: ast.IsNot, ast.IsNot: ast.Is}
SKIP_FUNCS = {'__repr__', 'density_correction', 'density_correction_kernel', 'koyama_kernel_real', 'calculate_attractive', 'itercurve',
              '__div__', '__idiv__'}


class Collect(ast.NodeVisitor):
    """enumerate mutation sites as (kind, node index) in a deterministic traversal"""

    def __init__(self):
        self.sites = []
        self.idx = 0
        self.func = []

    def generic_visit(self, node):
        # operator / context nodes are process-wide singletons in CPython's ast: never annotate them
        if not isinstance(node, (ast.operator, ast.cmpop, ast.unaryop, ast.boolop, ast.expr_context)):
            node._mid = self.idx
        self.idx += 1
        skip = False
        is_func = isinstance(node, ast.FunctionDef)
        if is_func:
            if node.name in SKIP_FUNCS:
                skip = True
            self.func.append(node.name)
        if isinstance(node, ast.Expr) and isinstance(node.value, ast.Constant) and isinstance(node.value.value, str):
            skip = True     # docstring
        if isinstance(node, (ast.Assert, ast.Raise, ast.Import, ast.ImportFrom)):
            skip = True     # messages / imports: mutating the condition of an assert only changes which inputs are rejected loudly
        if isinstance(node, ast.Call) and isinstance(node.func, ast.Attribute) and node.func.attr in ('warn', 'format'):
            skip = True
        if skip:
            if is_func:
                self.func.pop()
            return
        if isinstance(node, ast.BinOp) and type(node.op) in BIN:
            self.sites.append(('binop', node._mid, node.lineno))
        if isinstance(node, ast.AugAssign) and type(node.op) in BIN:
            self.sites.append(('augop', node._mid, node.lineno))
        if isinstance(node, ast.Compare) and len(node.ops) == 1 and type(node.ops[0]) in CMP:
            self.sites.append(('cmp', node._mid, node.lineno))
        if isinstance(node, ast.Constant) and isinstance(node.value, (int, float)) and not isinstance(node.value, bool):
            self.sites.append(('const', node._mid, node.lineno))
        if isinstance(node, ast.Constant) and isinstance(node.value, bool):
            self.sites.append(('bool', node._mid, node.lineno))
        if isinstance(node, ast.UnaryOp) and isinstance(node.op, (ast.USub, ast.Not)):
            self.sites.append(('unary', node._mid, node.lineno))
        if isinstance(node, ast.Subscript) and isinstance(node.slice, ast.Tuple) and len(node.slice.elts) == 2 and \
                all(isinstance(e, ast.Name) for e in node.slice.elts) and node.slice.elts[0].id != node.slice.elts[1].id:
            self.sites.append(('swapidx', node._mid, node.lineno))
        if isinstance(node, ast.If):
            self.sites.append(('ifnot', node._mid, node.lineno))
        if isinstance(node, (ast.Assign, ast.AugAssign)) or (isinstance(node, ast.Expr) and isinstance(node.value, ast.Call)):
            if self.func and self.func[-1] != '__init__':
                self.sites.append(('delstmt', node._mid, node.lineno))
        super().generic_visit(node)
        if is_func:
            self.func.pop()


def mutants_of(relpath):
    """[(kind, node number, lineno)]"""
    src = open(os.path.join(REPO, 'pyPRISM', relpath)).read()
    tree = ast.parse(src)
    c = Collect()
    c.visit(tree)
    return c.sites, src


import threading
_GEN_LOCK = threading.Lock()


def make_mutant(src, kind, mid):
    with _GEN_LOCK:
        return _make_mutant(src, kind, mid)


def _make_mutant(src, kind, mid):
    """re-parse, number the nodes exactly as Collect did, and rewrite the node with the given number"""
    tree = ast.parse(src)
    c = Collect()
    c.visit(tree)
    target = None
    for node in ast.walk(tree):
        if not isinstance(node, (ast.operator, ast.cmpop, ast.unaryop, ast.boolop, ast.expr_context)) and getattr(node, '_mid', None) == mid:
            target = node
            break
    if target is None:
        return None, None
    desc = None
    parent_map = {}
    for p in ast.walk(tree):
        for ch in ast.iter_child_nodes(p):
            parent_map[id(ch)] = p

    def replace(old, new):
        p = parent_map[id(old)]
        for field, val in ast.iter_fields(p):
            if val is old:
                setattr(p, field, new)
                return
            if isinstance(val, list):
                for i, v in enumerate(val):
                    if v is old:
                        val[i] = new
                        return
    node = target
    if kind in ('binop', 'augop'):
        desc = '%s -> %s' % (type(node.op).__name__, BIN[type(node.op)].__name__)
        node.op = BIN[type(node.op)]()
    elif kind == 'cmp':
        desc = '%s -> %s' % (type(node.ops[0]).__name__, CMP[type(node.ops[0])].__name__)
        node.ops = [CMP[type(node.ops[0])]()]
    elif kind == 'const':
        v = node.value
        nv = (v + 1) if isinstance(v, int) else (v * 2.0 if v != 0 else 1.0)
        desc = 'const %r -> %r' % (v, nv)
        node.value = nv
    elif kind == 'bool':
        desc = 'bool %r -> %r' % (node.value, not node.value)
        node.value = not node.value
    elif kind == 'unary':
        desc = 'drop unary %s' % type(node.op).__name__
        replace(node, node.operand)
    elif kind == 'swapidx':
        desc = 'swap subscript (%s,%s)' % (node.slice.elts[0].id, node.slice.elts[1].id)
        node.slice.elts = [node.slice.elts[1], node.slice.elts[0]]
    elif kind == 'ifnot':
        desc = 'negate if-condition'
        node.test = ast.UnaryOp(op=ast.Not(), operand=node.test)
    elif kind == 'delstmt':
        desc = 'delete statement'
        replace(node, ast.copy_location(ast.Pass(), node))
    ast.fix_missing_locations(tree)
    return ast.unparse(tree), desc


def run_mutant(job):
    relpath, kind, mid, lineno, seed = job
    src = open(os.path.join(REPO, 'pyPRISM', relpath)).read()
    new_src, desc = make_mutant(src, kind, mid)
    line = src.splitlines()[lineno - 1].strip()
    res = {'file': relpath, 'line': lineno, 'kind': kind, 'mid': mid, 'desc': desc, 'source_line': line[:140]}
    if new_src is None:
        res['status'] = 'not-generated'
        return res
    try:
        compile(new_src, relpath, 'exec')
    except SyntaxError:
        res['status'] = 'does-not-compile'
        return res
    scratch = tempfile.mkdtemp(prefix='pyprism_amut_')
    try:
        shutil.copytree(os.path.join(REPO, 'pyPRISM'), os.path.join(scratch, 'pyPRISM'), ignore=shutil.ignore_patterns('__pycache__', '*.pyc', 'test'))
        open(os.path.join(scratch, 'pyPRISM', relpath), 'w').write(new_src)
        env = dict(os.environ, PYPRISM_SRC=scratch, PBT_OUT_ROOT=os.path.join(scratch, 'out'), VERIF_SEED=str(seed), PYTHONHASHSEED='0',
                   PYTHONDONTWRITEBYTECODE='1', OMP_NUM_THREADS='1', OPENBLAS_NUM_THREADS='1')
        imp = subprocess.run(['/venv/bin/python', '-c', 'import pyPRISM'], cwd=scratch, env=dict(env, PYTHONPATH=scratch), stdout=subprocess.PIPE, stderr=subprocess.STDOUT)
        if imp.returncode != 0:
            res['status'] = 'does-not-import'
            return res
        res['status'] = 'SURVIVED'
        res['ran'] = []
        t0 = time.time()
        for pid in PROPS[relpath]:
            try:
                r = subprocess.run(['/venv/bin/python', '-m', 'pbt.run', pid, '--tier', 'quick', '--procs', '2'], cwd=ROOT, env=env, stdout=subprocess.PIPE,
                                   stderr=subprocess.STDOUT, text=True, timeout=600)
            except subprocess.TimeoutExpired:
                res['status'] = 'timeout'      # the mutant makes a check run for more than 10 minutes (a solver that never returns)
                res['by'] = pid
                break
            res['ran'].append([pid, r.returncode])
            if r.returncode == 1:
                v = [l.strip() for l in r.stdout.splitlines() if l.strip().startswith('violated:')]
                res['status'] = 'killed'
                res['by'] = pid
                res['violation'] = v[0][10:170] if v else ''
                break
            if r.returncode != 0:
                res['status'] = 'harness-error'
                res['by'] = pid
                res['output'] = r.stdout[-600:]
                break
        res['wall'] = round(time.time() - t0, 1)
        return res
    finally:
        shutil.rmtree(scratch, ignore_errors=True)


def main():
    ap = argparse.ArgumentParser()
    ap.add_argument('--files')
    ap.add_argument('-j', type=int, default=8)
    ap.add_argument('--limit', type=int, default=0)
    ap.add_argument('--out', default=None)
    ap.add_argument('--seed', type=int, default=1)
    ap.add_argument('--kinds', default=None)
    ap.add_argument('--rerun', default=None, help='only the mutants that survived (or hung) in this earlier report')
    a = ap.parse_args()
    files = a.files.split(',') if a.files else sorted(PROPS)
    jobs = []
    for f in files:
        if not os.path.exists(os.path.join(REPO, 'pyPRISM', f)):
            continue
        sites, _ = mutants_of(f)
        for kind, mid, lineno in sites:
            if a.kinds and kind not in a.kinds.split(','):
                continue
            jobs.append((f, kind, mid, lineno, a.seed))
    if a.rerun:
        keep = {(r['file'], r['kind'], r['mid']) for r in json.load(open(a.rerun))['results'] if r['status'] not in ('killed', 'does-not-compile', 'does-not-import')}
        jobs = [j for j in jobs if (j[0], j[1], j[2]) in keep]
    if a.limit:
        jobs = jobs[:a.limit]
    sys.stderr.write('%d mutants\n' % len(jobs))
    results = []
    with ThreadPoolExecutor(a.j) as ex:
        for r in ex.map(run_mutant, jobs):
            results.append(r)
            if r['status'] in ('SURVIVED', 'harness-error'):
                print('%-14s %s:%d  %s   | %s' % (r['status'], r['file'], r['line'], r['desc'], r['source_line']), flush=True)
    summary = {}
    for r in results:
        summary[r['status']] = summary.get(r['status'], 0) + 1
    print('SUMMARY', json.dumps(summary))
    if a.out:
        json.dump({'summary': summary, 'results': results}, open(a.out, 'w'), indent=1)


if __name__ == '__main__':
    main()
