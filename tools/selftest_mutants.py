#!/usr/bin/env python3
"""Sensitivity self-test: apply each semantic mutant of pbt/mutants.json to a scratch copy of /repo
(outside /repo and /verif), run the property's check against it and require exit 1.

usage: tools/selftest_mutants.py [--only C15[,C13..]] [--id mutant-id] [--tier quick] [--tests] [-j N]
  --tests   additionally run the repository's own test-suite on the mutated copy (must still pass,
            otherwise the mutant is not a 'passes the existing tests' change and is reported as such)
"""
import argparse, json, os, shutil, subprocess, sys, tempfile, time
from concurrent.futures import ThreadPoolExecutor
ROOT = os.path.dirname(os.path.dirname(os.path.abspath(__file__)))
REPO = '/repo'


def apply(m, dst):
    edits = m.get('edits') or [m]
    for e in edits:
        path = os.path.join(dst, e['file'])
        s = open(path).read()
        cnt = s.count(e['old'])
        want = e.get('count', 1)
        if cnt != want:
            raise SystemExit('mutant %s: %r occurs %d times in %s (expected %d)' % (m['id'], e['old'], cnt, e['file'], want))
        open(path, 'w').write(s.replace(e['old'], e['new']))


def run_one(m, tier, tests, seed):
    scratch = tempfile.mkdtemp(prefix='pyprism_mut_')
    try:
        shutil.copytree(os.path.join(REPO, 'pyPRISM'), os.path.join(scratch, 'pyPRISM'),
                        ignore=shutil.ignore_patterns('__pycache__', '*.pyc'))
        apply(m, scratch)
        env = dict(os.environ, PYPRISM_SRC=scratch, PBT_OUT_ROOT=os.path.join(scratch, 'out'), VERIF_SEED=str(seed),
                   PYTHONHASHSEED='0', PYTHONDONTWRITEBYTECODE='1', OMP_NUM_THREADS='1', OPENBLAS_NUM_THREADS='1')
        t0 = time.time()
        r = subprocess.run(['/venv/bin/python', '-m', 'pbt.run', m['property'], '--tier', tier], cwd=ROOT, env=env,
                           stdout=subprocess.PIPE, stderr=subprocess.STDOUT, text=True)
        dt = time.time() - t0
        viol = [l for l in r.stdout.splitlines() if l.startswith('  violated:')]
        res = {'id': m['id'], 'property': m['property'], 'exit': r.returncode, 'wall': round(dt, 1),
               'killed': r.returncode == 1, 'by': [v.split(' -- ')[0].replace('  violated: ', '') for v in viol]}
        if r.returncode not in (0, 1):
            res['output'] = r.stdout[-3000:]
        if tests:
            try:
                t = subprocess.run(['/venv/bin/python', '-m', 'pytest', '-q', '-x', '-p', 'no:cacheprovider', 'pyPRISM/test',
                                    '--ignore=pyPRISM/test/Debyer_test.py'],
                                   cwd=scratch, env=dict(os.environ, PYTHONDONTWRITEBYTECODE='1'),
                                   stdout=subprocess.PIPE, stderr=subprocess.STDOUT, text=True, timeout=240)
            except subprocess.TimeoutExpired:
                t = subprocess.CompletedProcess([], 124, 'suite timed out (240 s)', '')
            res['suite_passes'] = t.returncode == 0
            if t.returncode != 0:
                res['suite_tail'] = t.stdout[-600:]
        return res
    finally:
        shutil.rmtree(scratch, ignore_errors=True)


def main():
    ap = argparse.ArgumentParser()
    ap.add_argument('--only'); ap.add_argument('--id'); ap.add_argument('--tier', default='quick')
    ap.add_argument('--tests', action='store_true'); ap.add_argument('-j', type=int, default=4)
    ap.add_argument('--seed', type=int, default=1)
    a = ap.parse_args()
    muts = json.load(open(os.path.join(ROOT, 'pbt', 'mutants.json')))['mutants']
    if a.only:
        muts = [m for m in muts if m['property'] in a.only.split(',')]
    if a.id:
        muts = [m for m in muts if m['id'] in a.id.split(',')]
    with ThreadPoolExecutor(a.j) as ex:
        results = list(ex.map(lambda m: run_one(m, a.tier, a.tests, a.seed), muts))
    bad = 0
    for r in results:
        status = 'KILLED ' if r['killed'] else 'SURVIVED'
        extra = ''
        if 'suite_passes' in r:
            extra = ' suite=%s' % ('pass' if r['suite_passes'] else 'FAIL')
        print('%s %-4s %-40s exit=%d %5.1fs%s  %s' % (status, r['property'], r['id'], r['exit'], r['wall'], extra, '; '.join(r['by'])[:160]))
        if not r['killed']:
            bad += 1
            if 'output' in r:
                print(r['output'])
        if r.get('suite_tail'):
            print('    suite: ' + r['suite_tail'].replace('\n', '\n    '))
    print('%d mutants, %d survived' % (len(results), bad))
    return 1 if bad else 0

if __name__ == '__main__':
    sys.exit(main())
