#!/usr/bin/env python3
"""merge seeded/<id>/evaluation.json and seeded/NOTES.json into seeded/<id>/meta.json"""
import glob, json, os
ROOT = os.path.dirname(os.path.dirname(os.path.abspath(__file__)))
notes = json.load(open(os.path.join(ROOT, 'seeded', 'NOTES.json')))
for d in sorted(glob.glob(os.path.join(ROOT, 'seeded', '*', ''))):
    sid = os.path.basename(d.rstrip('/'))
    if not os.path.exists(d + 'evaluation.json'):
        continue
    meta = json.load(open(d + 'meta.json'))
    ev = json.load(open(d + 'evaluation.json'))
    meta['origin'] = 'written by an independent sub-agent that saw only the property text and a scratch worktree of /repo (nothing from /verif)'
    meta['what_i_ran'] = ('tools/seed_eval.py seeded/%s: patch applied to a scratch copy of /repo/pyPRISM (never to /repo itself); repository suite on the patched copy; '
                          'demo.py against the patched copy and against /repo; quick tier of the listed checks with PYPRISM_SRC pointing at the patched copy') % sid
    meta['verified'] = {'suite_passes_with_change': ev.get('suite_passes'), 'demo_exit_with_change': ev.get('demo_exit_patched'),
                        'demo_exit_without_change': ev.get('demo_exit_original'),
                        'checks': {p: {'exit': v['exit'], 'first_violation': (v['violations'][0][:200] if v['violations'] else None)} for p, v in ev['checks'].items()}}
    meta['caught_by'] = [p for p, v in ev['checks'].items() if v['exit'] == 1]
    n = notes.get(sid, [False, ''])
    meta['missed_when_first_run'], meta['strengthening'] = n[0], n[1]
    json.dump(meta, open(d + 'meta.json', 'w'), indent=1)
    print(sid, 'caught by', meta['caught_by'], '(missed at first)' if n[0] else '')
