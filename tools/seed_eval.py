#!/usr/bin/env python3
"""Evaluate a seeded change (seeded/<id>/patch.diff + demo.py) without touching /repo:
copy /repo/pyPRISM to a scratch dir outside /repo and /verif, apply the patch there, then
  1. run the repository's own test-suite on the patched copy (must pass),
  2. run demo.py against the patched copy (must exit 1) and against /repo (must exit 0),
  3. run the given properties' checks against the patched copy (PYPRISM_SRC) and report which raise a VIOLATION.
The scratch copy is removed afterwards.

usage: tools/seed_eval.py seeded/<id> [--props C01,C06] [--tier quick|thorough] [--seed N] [--no-suite]
"""
import argparse, json, os, shutil, subprocess, sys, tempfile, time
ROOT = os.path.dirname(os.path.dirname(os.path.abspath(__file__)))
REPO = '/repo'
ENV = dict(PYTHONHASHSEED='0', PYTHONDONTWRITEBYTECODE='1', OMP_NUM_THREADS='1', OPENBLAS_NUM_THREADS='1')


def main():
    ap = argparse.ArgumentParser()
    ap.add_argument('seed_dir'); ap.add_argument('--props'); ap.add_argument('--tier', default='quick')
    ap.add_argument('--seed', type=int, default=1); ap.add_argument('--no-suite', action='store_true')
    a = ap.parse_args()
    sd = os.path.abspath(a.seed_dir)
    meta = json.load(open(os.path.join(sd, 'meta.json')))
    props = a.props.split(',') if a.props else [meta['property']]
    scratch = tempfile.mkdtemp(prefix='pyprism_seed_')
    res = {'seed': os.path.basename(sd), 'property': meta['property']}
    try:
        shutil.copytree(os.path.join(REPO, 'pyPRISM'), os.path.join(scratch, 'pyPRISM'), ignore=shutil.ignore_patterns('__pycache__', '*.pyc'))
        p = subprocess.run(['patch', '-p1', '-s', '-d', scratch, '-i', os.path.join(sd, 'patch.diff')], stdout=subprocess.PIPE, stderr=subprocess.STDOUT, text=True)
        res['patch_applies'] = p.returncode == 0
        if p.returncode != 0:
            res['patch_output'] = p.stdout[-800:]
            print(json.dumps(res, indent=1))
            return 2
        env = dict(os.environ, **ENV)
        if not a.no_suite:
            t0 = time.time()
            t = subprocess.run(['/venv/bin/python', '-m', 'pytest', '-q', '-p', 'no:cacheprovider', 'pyPRISM/test', '--ignore=pyPRISM/test/Debyer_test.py'],
                               cwd=scratch, env=dict(env, PYTHONPATH=scratch), stdout=subprocess.PIPE, stderr=subprocess.STDOUT, text=True, timeout=1800)
            res['suite_passes'] = t.returncode == 0
            res['suite_tail'] = t.stdout.strip().splitlines()[-1] if t.stdout.strip() else ''
            res['suite_wall'] = round(time.time() - t0, 1)
        demo = os.path.join(sd, 'demo.py')
        if os.path.exists(demo):
            for name, src in (('demo_exit_patched', scratch), ('demo_exit_original', REPO)):
                try:
                    d = subprocess.run(['/venv/bin/python', '-W', 'ignore', demo], cwd=scratch, env=dict(env, PYTHONPATH=src), stdout=subprocess.PIPE,
                                       stderr=subprocess.STDOUT, text=True, timeout=900)
                    res[name] = d.returncode
                    if name == 'demo_exit_patched':
                        res['demo_output_patched'] = d.stdout[-600:]
                except subprocess.TimeoutExpired:
                    res[name] = 'timeout'
        res['checks'] = {}
        for pid in props:
            t0 = time.time()
            r = subprocess.run(['/venv/bin/python', '-m', 'pbt.run', pid, '--tier', a.tier], cwd=ROOT,
                               env=dict(env, PYPRISM_SRC=scratch, PBT_OUT_ROOT=os.path.join(scratch, 'out'), VERIF_SEED=str(a.seed)),
                               stdout=subprocess.PIPE, stderr=subprocess.STDOUT, text=True)
            viol = [l.strip()[len('violated: '):] for l in r.stdout.splitlines() if l.strip().startswith('violated:')]
            res['checks'][pid] = {'exit': r.returncode, 'wall': round(time.time() - t0, 1), 'violations': [v[:300] for v in viol]}
            if r.returncode not in (0, 1):
                res['checks'][pid]['output'] = r.stdout[-1500:]
        print(json.dumps(res, indent=1))
        return 0
    finally:
        shutil.rmtree(scratch, ignore_errors=True)


if __name__ == '__main__':
    sys.exit(main())
