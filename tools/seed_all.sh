#!/bin/sh
# evaluate every seeded change against the check(s) of its property (and extra properties given in seeded/<id>/also.txt)
cd "$(dirname "$0")/.."
for d in seeded/*/; do
  id=$(basename $d)
  props=$(/venv/bin/python -c "import json;print(json.load(open('$d/meta.json'))['property'])")
  if [ -f $d/also.txt ]; then props="$props,$(cat $d/also.txt)"; fi
  ( /venv/bin/python tools/seed_eval.py $d --props $props "$@" 2>/dev/null | grep -v '^WARNING' > $d/evaluation.json ) &
done
wait
/venv/bin/python - <<'PY'
import json,glob,os
for f in sorted(glob.glob('seeded/*/evaluation.json')):
    try: d=json.load(open(f))
    except Exception as e: print(f,'unreadable',e); continue
    caught=[p for p,v in d.get('checks',{}).items() if v['exit']==1]
    print('%-8s suite=%s demo(patched/orig)=%s/%s caught_by=%s' % (d['seed'], d.get('suite_passes'), d.get('demo_exit_patched'), d.get('demo_exit_original'), caught or 'NONE'))
PY
