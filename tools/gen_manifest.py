#!/usr/bin/env python3
"""Regenerate /verif/MANIFEST.json from the per-property metadata below (keeps it valid at all times)."""
import json, os, sys
ROOT = os.path.dirname(os.path.dirname(os.path.abspath(__file__)))
sys.path.insert(0, ROOT)

PY = 'PYTHONHASHSEED=0 PYTHONDONTWRITEBYTECODE=1 OMP_NUM_THREADS=1 OPENBLAS_NUM_THREADS=1 /venv/bin/python -m pbt.run'

# id -> (design section, technique, level text, level note)
CLAIMS = {}
NOT_APPLICABLE = {
 'C18': 'Debyer is a Cython/OpenMP extension that is not built in this environment (excluded from the baseline) and cannot be imported without editing it (np.int at module level fails under the pinned numpy); the quantifier is over OpenMP schedules a Python harness does not own. See DESIGN.md section 6.',
}

def load_claims():
    path = os.path.join(ROOT, 'tools', 'claims.json')
    with open(path) as fh:
        return json.load(fh)

def main():
    claims = load_claims()
    props = [json.loads(l) for l in open(os.path.join(ROOT, 'properties.jsonl'))]
    checks, na = [], []
    for p in props:
        pid = p['id']
        if pid in claims and os.path.exists(os.path.join(ROOT, 'pbt', pid.lower() + '.py')):
            c = claims[pid]
            checks.append({
                'property_id': pid,
                'quick_cmd': '%s %s --tier quick' % (PY, pid),
                'thorough_cmd': '%s %s --tier thorough' % (PY, pid),
                'evidence_file': 'evidence/%s.json' % pid,
                'replay_cmd_template': '%s %s --replay {path}' % (PY, pid),
                'engine': 'pbt',
                'level_claimed': {'category': 'exploration', 'text': c['text'], 'design_ref': c['design_ref']},
                'level_note': c['note'],
                'technique': c['technique'],
            })
        elif pid in NOT_APPLICABLE:
            na.append({'property_id': pid, 'reason': NOT_APPLICABLE[pid]})
        else:
            na.append({'property_id': pid, 'reason': 'not claimed yet: the check designed in DESIGN.md section 4 is not built/registered at this commit'})
    man = {
        'version': 1,
        'setup_cmd': './setup.sh',
        'hooks': {'guard': 'PYPRISM_VERIF', 'enable': 'no source hooks: every property is observable through public attributes; checks import /repo directly (PYTHONPATH head = /repo) with PYPRISM_VERIF=1 set, which nothing in the repository reads',
                  'baseline_off_cmd': 'cd /repo && /venv/bin/python -m pytest -ra -q -p no:cacheprovider --timeout=900 --continue-on-collection-errors',
                  'source_commits': [], 'add_only': True},
        'engines': [{'name': 'pbt', 'path': 'pbt/', 'serves_properties': [c['property_id'] for c in checks],
                     'kind_free_text': 'Hypothesis 6.168 property-based testing (structured strategies, RuleBasedStateMachine histories, shrinking to JSON replay files) plus exhaustive enumeration of small finite sub-spaces, against independent oracles (definition re-implementations, analytic results, metamorphic relations, reference models)'}],
        'checks': checks,
        'not_applicable': na,
        'notes': 'All checks: cwd=/verif, import the working tree at /repo (override PYPRISM_SRC only for the mutant self-test), honour VERIF_SEED, exit 0/1/2 = held / violation / harness error. Known findings: pbt/known_findings.json. Seeded changes used to test the checks: seeded/.',
    }
    with open(os.path.join(ROOT, 'MANIFEST.json'), 'w') as fh:
        json.dump(man, fh, indent=1)
    try:
        import jsonschema
        jsonschema.validate(man, json.load(open('/root/.vp/MANIFEST.schema.json')))
        print('MANIFEST.json valid;', len(checks), 'claimed,', len(na), 'not claimed')
    except ImportError:
        print('MANIFEST.json written (jsonschema not available to validate)')

if __name__ == '__main__':
    main()
