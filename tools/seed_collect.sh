#!/bin/sh
# tools/seed_collect.sh <id> [extra,props]  -- copy a sub-agent's deliverables from /tmp/wt/<id>/seed_out into seeded/<id>/ and evaluate them
cd "$(dirname "$0")/.."
id=$1
mkdir -p seeded/$id
[ -d /tmp/wt/$id/seed_out ] && cp /tmp/wt/$id/seed_out/patch.diff /tmp/wt/$id/seed_out/demo.py /tmp/wt/$id/seed_out/meta.json seeded/$id/
[ -n "$2" ] && echo "$2" > seeded/$id/also.txt
props=$(/venv/bin/python -c "import json;print(json.load(open('seeded/$id/meta.json'))['property'])")
[ -f seeded/$id/also.txt ] && props="$props,$(cat seeded/$id/also.txt)"
/venv/bin/python tools/seed_eval.py seeded/$id --props $props 2>/dev/null | grep -v '^WARNING' > seeded/$id/evaluation.json
/venv/bin/python - <<PY
import json
d=json.load(open('seeded/$id/evaluation.json'))
print('$id', 'applies=%s suite=%s demo(patched/orig)=%s/%s' % (d.get('patch_applies'), d.get('suite_passes'), d.get('demo_exit_patched'), d.get('demo_exit_original')))
for k,v in d.get('checks',{}).items():
    print('  ', k, 'exit', v['exit'], (v['violations'][0][:170] if v['violations'] else ''))
PY
