#!/usr/bin/env python3
import os, subprocess, sys
ROOT = os.path.dirname(os.path.dirname(os.path.abspath(__file__)))
tab = subprocess.run([sys.executable, os.path.join(ROOT, 'tools', 'seed_table.py')], stdout=subprocess.PIPE, text=True).stdout
p = os.path.join(ROOT, 'DESIGN.md')
s = open(p).read()
a, b = s.index('<!-- SEED-TABLE-BEGIN -->'), s.index('<!-- SEED-TABLE-END -->')
open(p, 'w').write(s[:a] + '<!-- SEED-TABLE-BEGIN -->\n' + tab + s[b:])
