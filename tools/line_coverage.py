#!/usr/bin/env python3
"""Which lines of /repo/pyPRISM do the quick tiers execute?  (generator diagnosis, not a check)

Runs every property's quick tier in one process (shards sequentially) under sys.monitoring LINE events (Python 3.12; each
location is disabled after its first hit, so the overhead is negligible) and prints, per source file, the executable lines
that were never reached.  usage: tools/line_coverage.py [C01,C02,...]   (outputs go to a scratch directory, not to evidence/)
"""
import os, sys, types, tempfile
ROOT = os.path.dirname(os.path.dirname(os.path.abspath(__file__)))
sys.path.insert(0, ROOT)
for k, v in {'PYTHONHASHSEED': '0', 'OMP_NUM_THREADS': '1', 'OPENBLAS_NUM_THREADS': '1', 'PYPRISM_VERIF': '1'}.items():
    os.environ.setdefault(k, v)
os.environ['PBT_OUT_ROOT'] = tempfile.mkdtemp(prefix='pbt_cov_')
SRC = os.environ.get('PYPRISM_SRC', '/repo')
PKG = os.path.join(SRC, 'pyPRISM') + os.sep
hits = set()
mon = sys.monitoring
TOOL = mon.COVERAGE_ID
mon.use_tool_id(TOOL, 'pbt-linecov')


def on_line(code, line):
    if code.co_filename.startswith(PKG):
        hits.add((code.co_filename, line))
    return mon.DISABLE


mon.register_callback(TOOL, mon.events.LINE, on_line)
mon.set_events(TOOL, mon.events.LINE)
from pbt import core
pids = sys.argv[1].split(',') if len(sys.argv) > 1 else ['C%02d' % i for i in range(1, 18)]
for pid in pids:
    try:
        core.run_property(pid, 'quick', 1, procs=1)
    except SystemExit:
        pass
mon.set_events(TOOL, 0)


def executable_lines(path):
    src = open(path).read()
    out = set()
    todo = [compile(src, path, 'exec')]
    while todo:
        co = todo.pop()
        for _, _, ln in co.co_lines():
            if ln:
                out.add(ln)
        todo.extend(c for c in co.co_consts if isinstance(c, types.CodeType))
    return out, src.splitlines()


tot = miss = 0
for dirpath, _, files in sorted(os.walk(PKG)):
    if os.sep + 'test' in dirpath or 'trajectory' in dirpath:
        continue
    for f in sorted(files):
        if not f.endswith('.py'):
            continue
        p = os.path.join(dirpath, f)
        ex, lines = executable_lines(p)
        hit = {ln for (fn, ln) in hits if fn == p}
        missed = sorted(l for l in ex - hit if not lines[l - 1].strip().startswith(('def ', 'class ', '@', "'''", '"""', 'import ', 'from ')))
        tot += len(ex)
        miss += len(missed)
        if missed:
            print('%s: %d of %d executable lines not reached' % (os.path.relpath(p, SRC), len(missed), len(ex)))
            for l in missed:
                print('    %4d  %s' % (l, lines[l - 1].rstrip()[:110]))
print('TOTAL: %d of %d executable lines not reached by the quick tiers' % (miss, tot))
